"""Non-linear real arithmetic helper (DESIGN 2.5): a rational-function claim  t <= 0 / t == 0 / t >= 0  is brought
to num/den with sympy (together, cancel, FACTOR), then decided by two division-free z3 queries (sign of den, sign of num).
The rewriting itself is re-checked by z3 as the polynomial identity  t * den == num  (under den != 0)."""
import time

import sympy as sp
import z3

from .engine import lift


def z2s(t):
    if z3.is_rational_value(t):
        return sp.Rational(t.numerator_as_long(), t.denominator_as_long())
    if z3.is_int_value(t):
        return sp.Integer(t.as_long())
    if z3.is_const(t):
        return sp.Symbol(t.decl().name(), real=True)
    k = t.decl().kind()
    ch = [z2s(c) for c in t.children()]
    if k == z3.Z3_OP_ADD:
        return sp.Add(*ch)
    if k == z3.Z3_OP_MUL:
        return sp.Mul(*ch)
    if k == z3.Z3_OP_SUB:
        return ch[0] - sp.Add(*ch[1:])
    if k == z3.Z3_OP_UMINUS:
        return -ch[0]
    if k == z3.Z3_OP_DIV:
        return ch[0] / ch[1]
    if k == z3.Z3_OP_POWER:
        return ch[0] ** ch[1]
    if k == z3.Z3_OP_TO_REAL:
        return ch[0]
    raise NotImplementedError(str(t.decl()))


def s2z(e):
    if e.is_Rational:
        return z3.Q(int(e.p), int(e.q))
    if e.is_Symbol:
        return z3.Real(e.name)
    if e.is_Add:
        r = s2z(e.args[0])
        for a in e.args[1:]:
            r = r + s2z(a)
        return r
    if e.is_Mul:
        r = s2z(e.args[0])
        for a in e.args[1:]:
            r = r * s2z(a)
        return r
    if e.is_Pow and e.exp.is_Integer and e.exp > 0:
        b = s2z(e.base)
        r = b
        for _ in range(int(e.exp) - 1):
            r = r * b
        return r
    raise NotImplementedError(str(e))


def normalise(term):
    """z3 term -> (num, den) factored sympy expressions"""
    e = z2s(z3.simplify(term))
    num, den = sp.fraction(sp.cancel(sp.together(e)))
    return sp.factor(num), sp.factor(den)


SLOW = [0]      # queries that needed more than a quarter of their time budget (robustness indicator, read by env)


def _check(hyps, claim, timeout_ms):
    s = z3.Solver()
    s.set('timeout', int(timeout_ms))
    s.add(*hyps)
    s.add(z3.Not(claim))
    t0 = time.time()
    r = s.check()
    if (time.time() - t0) * 1000 > 0.25 * timeout_ms:
        SLOW[0] += 1
    return str(r), (s.model() if r == z3.sat else None)


def decide(term, rel, hyps, timeout_ms=30000, stats=None):
    """Is `term rel 0` (rel in '<=', '>=', '==') valid under hyps?  -> ('unsat'|'sat'|'unknown', model, info)"""
    t0 = time.time()
    term = lift(term)
    info = {}
    st = z3.simplify(term)
    if z3.is_rational_value(st):
        v = st.numerator_as_long() / st.denominator_as_long()
        ok = {'<=': v <= 0, '>=': v >= 0, '==': v == 0}[rel]
        return ('unsat' if ok else 'sat'), None, dict(trivial=True)
    # cheap attempt on the raw term first (linear cases)
    try:
        num, den = normalise(term)
    except NotImplementedError:
        claim = {'<=': term <= 0, '>=': term >= 0, '==': term == 0}[rel]
        r, m = _check(hyps, claim, timeout_ms)
        return r, m, dict(raw=True)
    info['num'] = str(num)[:200]
    info['den'] = str(den)[:100]
    znum = s2z(num) if num != 0 else z3.RealVal(0)
    if num == 0:
        return 'unsat', None, info
    if den.is_number:
        sign = 1 if den > 0 else -1
    else:
        zden = s2z(den)
        r, _ = _check(hyps, zden > 0, timeout_ms)
        if r == 'unsat':
            sign = 1
        else:
            r2, _ = _check(hyps, zden < 0, timeout_ms)
            if r2 == 'unsat':
                sign = -1
            else:
                # sign of the denominator not determined: fall back to the raw claim
                claim = {'<=': term <= 0, '>=': term >= 0, '==': term == 0}[rel]
                r3, m3 = _check(hyps, claim, timeout_ms)
                info['den_sign'] = 'undetermined'
                return r3, m3, info
        # the rewrite is re-checked: term * den == num
        rr, _ = _check(hyps, term * zden == znum, min(timeout_ms, 10000))
        info['rewrite_checked'] = rr
    if rel == '==':
        claim = znum == 0
    elif (rel == '<=') == (sign > 0):
        claim = znum <= 0
    else:
        claim = znum >= 0
    r, m = _check(hyps, claim, timeout_ms)
    info['t'] = round(time.time() - t0, 3)
    return r, m, info
