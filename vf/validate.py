"""Validation of the stand-ins against the real libraries (DESIGN 2.4 / 9.4), run in its own process by C05:

 (a) the affine data recorded by the cvxpy STAND-IN for a model equals the affine data of the REAL cvxpy Problem that the
     real CvxpyWrapper builds for the same model (rows by evaluation at basis points);
 (b) the duals returned by the REAL cvxpy solve satisfy the certificate identity that the KKT contract stub implies
     (so the stub's sign conventions are cvxpy's);
 (c) the MOSEK numeric emulator (real MosekWrapper on the recording stand-in, task solved by real cvxpy) returns the same
     optimal value as the cvxpy path.
Prints one JSON object."""
import importlib.util
import io
import contextlib
import json
import os
import sys

HERE = os.path.dirname(os.path.abspath(__file__))


def load_standin():
    spec = importlib.util.spec_from_file_location("cvxpy_standin", os.path.join(HERE, "standins", "cvxpy", "__init__.py"))
    mod = importlib.util.module_from_spec(spec)
    spec.loader.exec_module(mod)
    return mod


def main():
    import cvxpy as real_cvxpy
    from vf import pipeline, sdp
    from vf.env import ConcEnv
    from vf.props import c01, c05
    standin = load_standin()
    vals = pipeline.default_values()[0]
    models = {
        'gd-cons': dict(fclass='ssc', steps=['grad'], cons=['le', 'ge', 'eq'], lmis=[], metrics=2),
        'lmi': dict(fclass='ssc', steps=['grad'], cons=[], lmis=['sym2', 'one'], metrics=1),
        'prox': dict(fclass='convex', steps=['prox'], cons=[], lmis=[], metrics=2),
        'inexact': dict(fclass='ssc', steps=['inexact'], cons=[], lmis=[], metrics=1),
    }
    out = dict(models={}, ok=True)
    for name, spec in models.items():
        res = {}
        # real cvxpy
        env = ConcEnv(vals, [])
        with contextlib.redirect_stdout(io.StringIO()):
            m = pipeline.build(env, dict(spec, backend='cvxpy'))
            tau = m.pep.solve(wrapper='cvxpy', verbose=0)
        real = c05.rows_from_real_cvxpy(m.pep.wrapper)
        # (b) certificate on the real duals
        env_b = ConcEnv(vals, [])
        c01.concrete_check(env_b, m, tau, dict(spec, backend='cvxpy'))
        res['real_duals_satisfy_contract_identity'] = (len(env_b.failed) == 0)
        res['tau_cvxpy'] = float(tau)
        # stand-in, same model, concrete coefficients, no solve needed beyond recording
        sys.modules['cvxpy'] = standin
        try:
            standin.reset()
            standin.SOLVER_HOOK[0] = lambda prob, **kw: setattr(prob, 'status', 'infeasible')
            env2 = ConcEnv(vals, [])
            with contextlib.redirect_stdout(io.StringIO()):
                m2 = pipeline.build(env2, dict(spec, backend='cvxpy'))
                m2.pep.solve(wrapper='cvxpy', verbose=0)
            w2 = m2.pep.wrapper
            G, F = w2.G, w2.F
            lmi_vars = [c.expr for c in w2.prob.constraints if c.kind == 'psd' and c.expr is not G]
            index = {id(v): l for l, v in enumerate(lmi_vars)}
            rows = []
            for c in w2.prob.constraints:
                if c.kind == 'psd':
                    continue
                f = {}
                for (var, idx), coef in c.expr.terms.items():
                    key = ('G', idx[0], idx[1]) if var is G else (('F', idx[0]) if var is F else ('M', index[id(var)], idx[0], idx[1]))
                    f[key] = f.get(key, 0) + coef
                rows.append(dict(kind=c.kind, form=f, const=c.expr.const))
        finally:
            sys.modules['cvxpy'] = real_cvxpy
        for r in real['rows']:
            # real cvxpy reports the total weight of G[i,j] (i<j) as the sum over both symmetric positions: same convention
            r['sign_free'] = (r['kind'] == 'eq')
        missing, extra = sdp.match_rows(ConcEnv(vals, []), real['rows'], rows)
        res['rows_real'] = len(real['rows'])
        res['rows_standin'] = len(rows)
        res['rows_only_real'] = len(missing)
        res['rows_only_standin'] = len(extra)
        # (c) MOSEK emulator
        pipeline.enable_mosek_emulator()
        env3 = ConcEnv(vals, [])
        with contextlib.redirect_stdout(io.StringIO()):
            m3 = pipeline.build(env3, dict(spec, backend='mosek'))
            tau3 = m3.pep.solve(wrapper='mosek', verbose=0)
        res['tau_mosek_emulated'] = float(tau3)
        res['mosek_wrapper_used'] = type(m3.pep.wrapper).__name__ == 'MosekWrapper'
        env_c = ConcEnv(vals, [])
        c01.concrete_check(env_c, m3, tau3, dict(spec, backend='mosek'))
        res['emulated_mosek_duals_satisfy_identity'] = (len(env_c.failed) == 0)
        # remove the stand-in mosek again for the next cvxpy run
        for p in list(sys.path):
            if p.endswith('mosek_only'):
                sys.path.remove(p)
        sys.modules.pop('mosek', None)
        ok = (res['rows_only_real'] == 0 and res['rows_only_standin'] == 0 and res['real_duals_satisfy_contract_identity']
              and res['mosek_wrapper_used'] and res['emulated_mosek_duals_satisfy_identity']
              and abs(res['tau_cvxpy'] - res['tau_mosek_emulated']) <= 2e-3 * (1 + abs(res['tau_cvxpy'])))
        res['ok'] = ok
        out['ok'] = out['ok'] and ok
        out['models'][name] = res
    print(json.dumps(out))
    return 0 if out['ok'] else 1


if __name__ == "__main__":
    sys.exit(main())
