"""Canonical view of the SDP recorded by the stand-ins, and of the SDP a model declares (C05, C11, C12, C13).

A row is dict(kind='le'|'eq', form={key: coef}, const=c) meaning  sum coef*unknown + c  (<= | ==) 0 with keys
('G', i, j) i<=j (total weight on the Gram entry), ('F', k), ('M', l, i, j) i<=j (entry of the l-th LMI variable,
l = order in which LMIs were sent)."""
import z3

from .engine import lift
from .denote import canon


def _add(d, k, v):
    if type(v) in (int, float) and v == 0 and k not in d:
        return
    d[k] = d[k] + v if k in d else v


def rows_from_cvxpy(wrapper, prob):
    """-> dict(rows=[...], psd=[sizes...], objective=(sense, form, const), nG, nF)"""
    import cvxpy as cp
    G, F = wrapper.G, wrapper.F
    others = [v for v in cp.variables() if v is not G and v is not F]
    # only variables appearing in this problem's PSD constraints are LMI variables, in order of appearance
    lmi_vars = [c.expr for c in prob.constraints if c.kind == 'psd' and c.expr is not G]
    index = {id(v): l for l, v in enumerate(lmi_vars)}

    def key_of(var, idx):
        if var is G:
            return ('G', idx[0], idx[1])
        if var is F:
            return ('F', idx[0])
        if id(var) in index:
            return ('M', index[id(var)], idx[0], idx[1])
        return ('?', var.id) + tuple(idx)

    def form_of(aff):
        f = {}
        for (var, idx), c in aff.terms.items():
            _add(f, key_of(var, idx), c)
        return f

    rows = []
    for c in prob.constraints:
        if c.kind == 'psd':
            continue
        rows.append(dict(kind=c.kind, form=form_of(c.expr), const=c.expr.const))
    psd = [c.expr.shape[0] for c in prob.constraints if c.kind == 'psd']
    obj = (prob.objective.sense, form_of(prob.objective.expr), prob.objective.expr.const)
    return dict(rows=rows, psd=psd, objective=obj, nG=G.shape[0], nF=F.shape[0], n_other_vars=len(others))


def rows_from_mosek(task, nF):
    import mosek
    rows = []
    for i in range(task.numcon):
        bars, lin, (bk, bl, bu) = task.row(i)
        f = {}
        for j, A in bars.items():
            n = A.shape[0]
            for a in range(n):
                for b in range(a, n):
                    w = A[a, b] if a == b else A[a, b] + A[b, a]
                    if type(w) in (int, float) and w == 0:
                        continue
                    _add(f, ('G', a, b) if j == 0 else ('M', j - 1, a, b), w)
        for j, a in lin.items():
            _add(f, ('F', j) if j < nF else ('Xextra', j), a)
        if bk == mosek.boundkey.up:
            rows.append(dict(kind='le', form=f, const=-bu))
        elif bk == mosek.boundkey.fx:
            rows.append(dict(kind='eq', form=f, const=-bl))
        else:
            rows.append(dict(kind='other:%s' % bk, form=f, const=0))
    of = {}
    for j, v in task.c.items():
        if type(v) in (int, float) and v == 0:
            continue
        _add(of, ('F', j) if j < nF else ('Xextra', j), v)
    for j, lst in task.barC.items():
        A = task.bar_dense(lst, task.barvar_dims[j])
        n = A.shape[0]
        for a in range(n):
            for b in range(a, n):
                w = A[a, b] if a == b else A[a, b] + A[b, a]
                if type(w) in (int, float) and w == 0:
                    continue
                _add(of, ('G', a, b) if j == 0 else ('M', j - 1, a, b), w)
    sense = 'max' if task.sense == mosek.objsense.maximize else 'min'
    free = [j for j in range(task.numvar) if task.varbound[j][0] == mosek.boundkey.fr]
    return dict(rows=rows, psd=list(task.barvar_dims), objective=(sense, of, 0), nG=task.barvar_dims[0],
                nF=nF, free_vars=free, numvar=task.numvar)


def expected_rows(pep, metrics, constraints, lmis):
    """rows a model declares: metrics (objective - metric <= 0), scalar constraints, LMIs (entry equalities
    M_l[i,j] - E_ij == 0 for every (i,j) of the matrix as written)"""
    rows = []
    for met in metrics:
        f = dict(canon(pep.objective - met))
        c = f.pop('c', 0)
        rows.append(dict(kind='le', form=_fkeys(f), const=c, src='metric'))
    for con in constraints:
        f = dict(canon(con.expression))
        c = f.pop('c', 0)
        rows.append(dict(kind='le' if con.equality_or_inequality == 'inequality' else 'eq', form=_fkeys(f), const=c,
                         src='constraint'))
    for l, psd in enumerate(lmis):
        n = psd.shape[0]
        for i in range(n):
            for j in range(n):
                f = dict(canon(psd[i, j]))
                c = f.pop('c', 0)
                f = _fkeys(f)
                # M[i,j] == E_ij  (recorded either as M - E == 0 or E - M == 0)
                f = {k: -v for k, v in f.items()}
                _add(f, ('M', l, min(i, j), max(i, j)), 1)
                rows.append(dict(kind='eq', form=f, const=-c, src='lmi%d[%d,%d]' % (l, i, j), sign_free=True))
    return rows


def _fkeys(f):
    return {k: v for k, v in f.items()}


def _zero(t):
    lt = lift(t)
    if lt is None:
        return False
    d = z3.simplify(lt)
    return z3.is_rational_value(d) and d.numerator_as_long() == 0


def same_row(env, r1, r2, prove=False):
    """are two rows the same constraint?  fast path: syntactic after simplify; `prove` -> z3 under path condition"""
    if r1['kind'] != r2['kind']:
        return False
    signs = (1, -1) if (r1.get('sign_free') or r2.get('sign_free')) and r1['kind'] == 'eq' else (1,)
    for sg in signs:
        ok = True
        keys = set(r1['form']) | set(r2['form'])
        diffs = [r1['const'] - sg * r2['const']] + [r1['form'].get(k, 0) - sg * r2['form'].get(k, 0) for k in keys]
        pending = []
        for d in diffs:
            if _zero(d):
                continue
            if not prove or not env.sym:
                if env.sym or abs(float(d)) > 1e-9:
                    ok = False
                    break
            else:
                pending.append(d)
        if ok and pending:
            r, _ = env.eng.valid(z3.And(*[lift(d) == 0 for d in pending]))
            ok = (r == 'unsat')
        if ok:
            return True
    return False


def match_rows(env, expected, recorded):
    """multiset matching.  -> (missing expected rows, extra recorded rows)"""
    used = [False] * len(recorded)
    missing = []
    for e in expected:
        hit = None
        for prove in (False, True):
            for i, r in enumerate(recorded):
                if not used[i] and same_row(env, e, r, prove=prove):
                    hit = i
                    break
            if hit is not None:
                break
        if hit is None:
            missing.append(e)
        else:
            used[hit] = True
    extra = [r for i, r in enumerate(recorded) if not used[i]]
    return missing, extra


def describe(row):
    def s(v):
        lv = lift(v)
        return str(z3.simplify(lv)) if lv is not None else str(v)
    return "%s: %s + %s" % (row['kind'], {str(k): s(v) for k, v in list(row['form'].items())[:8]}, s(row['const']))
