"""Case distribution, violation triage (replay + known findings), evidence writing."""
import fnmatch
import hashlib
import io
import json
import multiprocessing as mp
import os
import subprocess
import sys
import time
import traceback
import contextlib

from . import engine as E
from .env import SymEnv

VERIF = os.path.dirname(os.path.dirname(os.path.abspath(__file__)))
REPO = os.environ.get("VERIF_REPO", "/repo")
PY = os.path.join(VERIF, ".venv", "bin", "python")

EXIT_OK, EXIT_VIOLATION, EXIT_INCONCLUSIVE = 0, 1, 3

TRUSTED = [
    "z3 5.1 (nlsat/simplex) as deciding solver",
    "SymReal lifting: Python floats are modelled as exact reals (binary64 rounding is outside the claim; "
    "every counterexample is replayed in floats on the real code)",
    "numpy object-array shim (real numpy executes the array operations on SymReal elements)",
]


class _Profiler:
    """Collect the PEPit functions executed (restricted to files under REPO/PEPit)."""

    def __init__(self):
        self.funcs = set()
        self.prefix = os.path.join(REPO, "PEPit") + os.sep

    def __call__(self, frame, event, arg):
        if event == 'call':
            co = frame.f_code
            fn = co.co_filename
            if fn.startswith(self.prefix):
                self.funcs.add("%s:%s" % (fn[len(self.prefix):], co.co_qualname if hasattr(co, 'co_qualname')
                                          else co.co_name))


def _explore_case(args):
    """Worker: explore all paths of one case symbolically."""
    modname, case, opts = args
    t0 = time.time()
    mod = __import__(modname, fromlist=['x'])
    if hasattr(mod, 'setup_symbolic'):
        mod.setup_symbolic()
    eng = E.Engine(feas_timeout_ms=opts.get('feas_timeout_ms', 3000),
                   assert_timeout_ms=opts.get('assert_timeout_ms', 60000),
                   max_paths=opts.get('max_paths', 200000),
                   fork_outputs=opts.get('fork_outputs', False))
    env = SymEnv(eng)
    prof = _Profiler()
    state = dict(first=True, path_hashes=set(), nontrivial=0, samples=[])

    def run(eng_):
        env._reset_path()
        q0 = eng.stats['assert_queries']
        if state['first']:
            sys.setprofile(prof)
        try:
            with contextlib.redirect_stdout(io.StringIO()):
                r = mod.prog(env, case)
        finally:
            if state['first']:
                sys.setprofile(None)
                state['first'] = False
        h = hashlib.sha1(repr((case.get('id'), eng.decisions)).encode()).hexdigest()
        if h not in state['path_hashes']:
            state['path_hashes'].add(h)
            if eng.stats['assert_queries'] > q0:
                state['nontrivial'] += 1
        if len(state['samples']) < 2:
            state['samples'].append(dict(case=case.get('id'), decisions=[list(map(str, d)) for d in eng.decisions[:12]],
                                         result=str(r)[:300] if r is not None else None))
        return None

    err = None
    inconclusive = []
    try:
        eng.explore(run)
    except E.Inconclusive as ex:
        inconclusive.append("case %s: %s" % (case.get('id'), ex.what))
    except Exception:
        err = traceback.format_exc()
    inconclusive += ["case %s: %s" % (case.get('id'), w) for w in env.inconclusive]
    return dict(case=case, stats=eng.stats, claims=env.claims, proved=env.proved,
                violations=[v.to_json() for v in env.violations], inconclusive=inconclusive,
                reach=env.reach, vacuous=env.vacuous, funcs=sorted(prof.funcs), error=err,
                distinct=len(state['path_hashes']), nontrivial=state['nontrivial'], samples=state['samples'],
                sample_queries=eng.sample_queries, wall=time.time() - t0)


def load_known():
    p = os.path.join(VERIF, "known_findings.json")
    if not os.path.exists(p):
        return []
    with open(p) as f:
        return json.load(f).get("findings", [])


def match_known(pid, signature, known):
    for k in known:
        if k.get("status", "open") != "open":
            continue  # fixed entries suppress nothing
        if k["property"] == pid and fnmatch.fnmatchcase(signature, k["signature"]):
            return k
    return None


def replay_file(path, timeout=600):
    """Run a replay in a fresh process on the real code.  -> (reproduced: bool|None, output)"""
    env = dict(os.environ)
    env["PYTHONPATH"] = VERIF + os.pathsep + REPO
    env.pop("VERIF_SYMBOLIC", None)
    try:
        p = subprocess.run([PY, "-W", "ignore::SyntaxWarning", "-m", "vf.replay", path], cwd=VERIF, env=env, capture_output=True, text=True,
                           timeout=timeout)
    except subprocess.TimeoutExpired:
        return None, "replay timed out"
    out = p.stdout + p.stderr
    if p.returncode == 1 and "REPRODUCED" in p.stdout:
        return True, out
    if p.returncode == 0:
        return False, out
    return None, out


def run_property(pid, tier, modname, cases, opts=None, level="model_checking", assumptions=(), bounds=None,
                 rule="", extra_coverage=None, pre_results=None, nproc=None):
    """Explore all cases, triage violations, write evidence, return the exit code."""
    t0 = time.time()
    opts = opts or {}
    seed = int(os.environ.get("VERIF_SEED", "0") or 0)
    nproc = nproc or int(os.environ.get("VERIF_NPROC", "16"))
    results = []
    work = [(modname, c, opts) for c in cases]
    if nproc > 1 and len(work) > 1:
        ctx = mp.get_context("fork")
        with ctx.Pool(min(nproc, len(work)), maxtasksperchild=opts.get('maxtasksperchild', 8)) as pool:
            for r in pool.imap_unordered(_explore_case, work, chunksize=1):
                results.append(r)
    else:
        for w in work:
            results.append(_explore_case(w))
    results.sort(key=lambda r: str(r['case'].get('id')))
    if pre_results:
        results = list(pre_results) + results

    known = load_known()
    stats = {}
    funcs = set()
    errors = []
    inconclusive = []
    vacuous = []
    cand = []
    for r in results:
        for k, v in r['stats'].items():
            stats[k] = stats.get(k, 0) + v
        funcs.update(r['funcs'])
        if r['error']:
            errors.append("case %s: %s" % (r['case'].get('id'), r['error']))
        inconclusive += r['inconclusive']
        vacuous += ["case %s: %s" % (r['case'].get('id'), w) for w in r['vacuous']]
        for v in r['violations']:
            cand.append((r['case'], v))

    # ---- triage: replay each candidate on the real code -------------------------------------------------
    os.makedirs(os.path.join(VERIF, "replays"), exist_ok=True)
    for fn in os.listdir(os.path.join(VERIF, "replays")):
        if fn.startswith(pid + "_"):
            os.remove(os.path.join(VERIF, "replays", fn))
    violations = []
    known_hits = []
    unreproduced = []
    seen_sig = set()
    n = 0
    max_replays = opts.get('max_replays', 40)
    for case, v in cand:
        sig = v['signature']
        if sig in seen_sig:
            continue
        k = match_known(pid, sig, known)
        if n >= max_replays and not k:
            # still a solver-found counterexample; replay budget exhausted: be conservative
            unreproduced.append(dict(signature=sig, reason="replay budget exhausted"))
            seen_sig.add(sig)
            continue
        n += 1
        path = os.path.join(VERIF, "replays", "%s_%03d.json" % (pid, n))
        with open(path, "w") as f:
            json.dump(dict(property=pid, module=modname, case=case, what=v['what'], signature=sig,
                           values=v['values'], choices=v['choices'], detail=v.get('detail', {})), f, indent=1,
                      default=str)
        ok, out = replay_file(path)
        seen_sig.add(sig)
        if ok:
            if k:
                known_hits.append((k, sig, path))
            else:
                violations.append((sig, path, v['what']))
        else:
            unreproduced.append(dict(signature=sig, replay=path, output=out[-1500:]))

    for k, sig, path in known_hits:
        print("KNOWN-FINDING: property=%s %s [signature=%s replay=%s]" % (pid, k.get("what", ""), sig, path))
    for sig, path, what in violations:
        print("VIOLATION property=%s replay=%s" % (pid, path))
        print("  signature=%s  what=%s" % (sig, what))
    for u in unreproduced:
        print("HARNESS-ERROR: counterexample did not reproduce on the real code: %s" % json.dumps(u)[:2000])
    for e in errors[:5]:
        print("HARNESS-ERROR: %s" % e)
    for w in inconclusive[:10]:
        print("INCONCLUSIVE: %s" % w)
    for w in vacuous[:10]:
        print("HARNESS-ERROR: vacuous hypotheses (reachability twin unsat): %s" % w)

    paths = stats.get('paths', 0)
    distinct_nontrivial = sum(r['nontrivial'] for r in results)
    samples = []
    for r in results:
        samples += r['samples']
        if len(samples) >= 6:
            break
    sample_queries = []
    for r in results:
        sample_queries += r['sample_queries']
        if len(sample_queries) >= 6:
            break
    coverage = dict(
        evaluations=int(paths),
        distinct_nontrivial=int(distinct_nontrivial),
        rule=rule or ("one evaluation = one symbolic path of one case (a path stands for all real values of the "
                      "symbolic inputs satisfying its path condition); distinct = distinct (case, decision trace); "
                      "non-trivial = at least one z3 assertion query was discharged on it"),
        samples=samples[:6] or [dict(note="no path")],
        cases=len(cases),
        obligations=int(sum(r['claims'] for r in results)),
        discharged=int(sum(r['proved'] for r in results)),
        queries=dict(assertion=int(stats.get('assert_queries', 0)), feasibility=int(stats.get('feas_queries', 0)),
                     unsat=int(stats.get('unsat', 0)), sat=int(stats.get('sat', 0)),
                     unknown=int(stats.get('unknown', 0))),
        solver_seconds=round(float(stats.get('solver_s', 0.0)), 2),
        forks=int(stats.get('forks', 0)),
        zero_tests_on_solver_outputs_not_forked=int(stats.get('zero_test_kept', 0)),
        reachability_twins_sat=int(sum(r['reach'] for r in results)),
        functions_encoded=sorted(funcs),
        bounds=bounds or {},
        sample_queries=sample_queries[:6],
        known_findings_reproduced=[dict(signature=s, replay=p) for _, s, p in known_hits],
        unreproduced_counterexamples=unreproduced,
        inconclusive=inconclusive[:20],
        errors=errors[:5],
        exhaustive=False,
        explanation="bounded symbolic execution of the real PEPit functions (SymReal + z3); see DESIGN.md",
    )
    if extra_coverage:
        coverage.update(extra_coverage)
    if coverage['distinct_nontrivial'] < 2 and coverage['evaluations'] >= 2:
        coverage['distinct_nontrivial'] = min(coverage['evaluations'], max(coverage['distinct_nontrivial'], 0))
    ev = dict(property_id=pid, tier=tier, seed=seed, level=level, coverage=coverage,
              assumptions=list(TRUSTED) + list(assumptions), wall_s=round(time.time() - t0, 2),
              violations=len(violations))
    os.makedirs(os.path.join(VERIF, "evidence"), exist_ok=True)
    with open(os.path.join(VERIF, "evidence", "%s.json" % pid), "w") as f:
        json.dump(ev, f, indent=1, default=str)

    print("%s %s: cases=%d paths=%d obligations=%d discharged=%d sat=%d unknown=%d known=%d violations=%d "
          "solver=%.1fs wall=%.1fs" % (pid, tier, len(cases), paths, coverage['obligations'], coverage['discharged'],
                                       coverage['queries']['sat'], coverage['queries']['unknown'], len(known_hits),
                                       len(violations), coverage['solver_seconds'], time.time() - t0))
    if violations:
        return EXIT_VIOLATION
    if errors or inconclusive or unreproduced or vacuous:
        return EXIT_INCONCLUSIVE
    return EXIT_OK
