"""Case distribution, violation triage (replay + known findings), evidence writing."""
import fnmatch
import hashlib
import io
import json
import multiprocessing as mp
import os
import subprocess
import sys
import time
import traceback
import contextlib

from . import engine as E
from .env import SymEnv

VERIF = os.path.dirname(os.path.dirname(os.path.abspath(__file__)))
REPO = os.environ.get("VERIF_REPO", "/repo")
PY = os.path.join(os.environ.get("VERIF_VENV", os.path.join(VERIF, ".venv")), "bin", "python")

EXIT_OK, EXIT_VIOLATION, EXIT_INCONCLUSIVE = 0, 1, 3

TRUSTED = [
    "z3 5.1 (nlsat/simplex) as deciding solver",
    "SymReal lifting: Python floats are modelled as exact reals (binary64 rounding is outside the claim; "
    "every counterexample is replayed in floats on the real code)",
    "numpy object-array shim (real numpy executes the array operations on SymReal elements)",
]


class _Profiler:
    """Collect the PEPit functions executed (restricted to files under REPO/PEPit)."""

    def __init__(self):
        self.funcs = set()
        self.prefix = os.path.join(REPO, "PEPit") + os.sep

    def __call__(self, frame, event, arg):
        if event == 'call':
            co = frame.f_code
            fn = co.co_filename
            if fn.startswith(self.prefix):
                self.funcs.add("%s:%s" % (fn[len(self.prefix):], co.co_qualname if hasattr(co, 'co_qualname')
                                          else co.co_name))


def _explore_case(args):
    """Worker: explore all paths of one case symbolically."""
    modname, case, opts = args
    t0 = time.time()
    mod = __import__(modname, fromlist=['x'])
    if hasattr(mod, 'setup_symbolic'):
        mod.setup_symbolic()
    E.RATIONALIZE[0] = bool(case.get('rationalize_floats', opts.get('rationalize_floats', False)))
    eng = E.Engine(feas_timeout_ms=opts.get('feas_timeout_ms', 3000),
                   assert_timeout_ms=opts.get('assert_timeout_ms', 60000),
                   max_paths=opts.get('max_paths', 200000),
                   fork_outputs=case.get('fork_outputs', opts.get('fork_outputs', False)),
                   output_branches=case.get('output_branches', opts.get('output_branches', 'both')),
                   input_zero_tests=case.get('input_zero_tests', opts.get('input_zero_tests', 'fork')))
    prof = _Profiler()
    holder = {}

    def run(eng_):
        env = SymEnv(eng)
        holder['env'] = env
        holder['q0'] = eng.stats['assert_queries']
        if not holder.get('profiled'):
            holder['profiled'] = True   # function coverage is collected on the first path of each case only
            sys.setprofile(prof)
        try:
            with contextlib.redirect_stdout(io.StringIO()):
                return mod.prog(env, case)
        finally:
            sys.setprofile(None)

    def summarize(eng_, r, err):
        env = holder.get('env')
        dec = eng.decisions
        h = hashlib.sha1(repr([(d[0], d[1].hash() if hasattr(d[1], 'hash') else d[1], d[2])
                               for d in dec]).encode()).hexdigest()
        rec = dict(hash=h, error=None if err in (None, 'abort') else err, aborted=(err == 'abort'),
                   claims=env.claims if env else 0, proved=env.proved if env else 0,
                   violations=[v.to_json() for v in env.violations] if env else [],
                   inconclusive=list(env.inconclusive) if env else [], reach=env.reach if env else 0,
                   vacuous=list(env.vacuous) if env else [], funcs=sorted(prof.funcs),
                   nontrivial=bool(env and (env.claims > 0 or eng.stats['assert_queries'] > holder.get('q0', 0))),
                   sample=dict(case=case.get('id'), decisions=[[d[0], str(d[1])[:100], str(d[2])] for d in dec[:10]],
                               result=str(r)[:300] if r is not None else None),
                   sample_queries=list(eng.sample_queries))
        prof.funcs.clear()
        eng.sample_queries = []
        return rec

    records = eng.explore(run, summarize, mode=opts.get('mode', 'fork'))
    out = dict(case=case, stats={}, claims=0, proved=0, violations=[], inconclusive=[], reach=0, vacuous=[],
               funcs=set(), error=None, distinct=0, nontrivial=0, samples=[], sample_queries=[], wall=0)
    hashes = set()
    sigs = set()
    for rec in records:
        for k, v in rec.get('stats', {}).items():
            out['stats'][k] = out['stats'].get(k, 0) + v
        if rec.get('error'):
            if rec['error'].startswith('inconclusive'):
                out['inconclusive'].append("case %s: %s" % (case.get('id'), rec['error']))
            elif out['error'] is None:
                out['error'] = rec['error']
        if 'hash' not in rec:
            continue
        out['claims'] += rec['claims']
        out['proved'] += rec['proved']
        for v in rec['violations']:
            if v['signature'] not in sigs:
                sigs.add(v['signature'])
                out['violations'].append(v)
        out['inconclusive'] += ["case %s: %s" % (case.get('id'), w) for w in rec['inconclusive']]
        out['reach'] += rec['reach']
        out['vacuous'] += rec['vacuous']
        out['funcs'].update(rec['funcs'])
        if rec['hash'] not in hashes and not rec['aborted']:
            hashes.add(rec['hash'])
            if rec['nontrivial']:
                out['nontrivial'] += 1
        if len(out['samples']) < 2 and not rec['aborted']:
            out['samples'].append(rec['sample'])
        if len(out['sample_queries']) < 3:
            out['sample_queries'] += rec['sample_queries'][:3]
    out['distinct'] = len(hashes)
    out['funcs'] = sorted(out['funcs'])
    out['wall'] = time.time() - t0
    return out


def load_known():
    p = os.path.join(VERIF, "known_findings.json")
    if not os.path.exists(p):
        return []
    with open(p) as f:
        return json.load(f).get("findings", [])


def match_known(pid, signature, known):
    for k in known:
        if k.get("status", "open") != "open":
            continue  # fixed entries suppress nothing
        if k["property"] == pid and fnmatch.fnmatchcase(signature, k["signature"]):
            return k
    return None


def replay_file(path, timeout=600):
    """Run a replay in a fresh process on the real code.  -> (reproduced: bool|None, output)"""
    env = dict(os.environ)
    env["PYTHONPATH"] = VERIF + os.pathsep + REPO
    env.pop("VERIF_SYMBOLIC", None)
    try:
        p = subprocess.run([PY, "-W", "ignore::SyntaxWarning", "-m", "vf.replay", path], cwd=VERIF, env=env, capture_output=True, text=True,
                           timeout=timeout)
    except subprocess.TimeoutExpired:
        return None, "replay timed out"
    out = p.stdout + p.stderr
    if p.returncode == 1 and "REPRODUCED" in p.stdout:
        return True, out
    if p.returncode == 0:
        return False, out
    return None, out


def collect(modname, cases, opts=None, nproc=None):
    """explore all cases (in parallel) -> list of per-case results"""
    opts = opts or {}
    nproc = nproc or int(os.environ.get("VERIF_NPROC", "16"))
    results = []
    work = [(modname, c, opts) for c in cases]
    if nproc > 1 and len(work) > 1:
        ctx = mp.get_context("fork")
        with ctx.Pool(min(nproc, len(work)), maxtasksperchild=opts.get('maxtasksperchild', 8)) as pool:
            for r in pool.imap_unordered(_explore_case, work, chunksize=1):
                results.append(r)
                if os.environ.get("VERIF_PROGRESS"):
                    print("[progress] case %s: paths=%s wall=%.1fs err=%s" % (
                        r['case'].get('id'), r['stats'].get('paths'), r['wall'], bool(r['error'])), file=sys.stderr,
                        flush=True)
    else:
        for w in work:
            results.append(_explore_case(w))
    return results


def run_property(pid, tier, modname, cases, opts=None, level="model_checking", assumptions=(), bounds=None,
                 rule="", extra_coverage=None, pre_results=None, nproc=None):
    """Explore all cases, triage violations, write evidence, return the exit code."""
    t0 = time.time()
    opts = opts or {}
    seed = int(os.environ.get("VERIF_SEED", "0") or 0)
    nproc = nproc or int(os.environ.get("VERIF_NPROC", "16"))
    results = collect(modname, cases, opts, nproc)
    results.sort(key=lambda r: str(r['case'].get('id')))
    if pre_results:
        results = list(pre_results) + results

    known = load_known()
    stats = {}
    funcs = set()
    errors = []
    inconclusive = []
    vacuous = []
    cand = []
    for r in results:
        for k, v in r['stats'].items():
            stats[k] = stats.get(k, 0) + v
        funcs.update(r['funcs'])
        if r['error']:
            errors.append("case %s: %s" % (r['case'].get('id'), r['error']))
        inconclusive += r['inconclusive']
        if r['claims'] > 0 and r['reach'] == 0 and r['vacuous']:
            vacuous += ["case %s: %s" % (r['case'].get('id'), w) for w in r['vacuous'][:1]]
        for v in r['violations']:
            cand.append((r['case'], v))

    # ---- triage: replay each candidate on the real code -------------------------------------------------
    os.makedirs(os.path.join(VERIF, "replays"), exist_ok=True)
    for fn in os.listdir(os.path.join(VERIF, "replays")):
        if fn.startswith(pid + "_"):
            os.remove(os.path.join(VERIF, "replays", fn))
    violations = []
    known_hits = []
    unreproduced = []
    seen_sig = set()
    n = 0
    max_replays = opts.get('max_replays', 40)
    for case, v in cand:
        sig = v['signature']
        if sig in seen_sig:
            continue
        k = match_known(pid, sig, known)
        if n >= max_replays and not k:
            # still a solver-found counterexample; replay budget exhausted: be conservative
            unreproduced.append(dict(signature=sig, reason="replay budget exhausted"))
            seen_sig.add(sig)
            continue
        n += 1
        path = os.path.join(VERIF, "replays", "%s_%03d.json" % (pid, n))
        with open(path, "w") as f:
            json.dump(dict(property=pid, module=modname, case=case, what=v['what'], signature=sig,
                           values=v['values'], choices=v['choices'], detail=v.get('detail', {}),
                           tol=case.get('replay_tol', 1e-6)), f, indent=1,
                      default=str)
        ok, out = replay_file(path)
        seen_sig.add(sig)
        if ok and 'realising a symbolic real' in str(v['what']):
            # concrete fall-back (see vf/replay.py): report the claim the real code failed, not the symbolic-execution limit
            import re
            mo = re.search(r"REPRODUCED property=\S+ signature=(\S+)", out)
            mw = re.search(r"^  what: (.*)$", out, re.M)
            if mo:
                sig = mo.group(1)
                v = dict(v, what="(symbolic execution stopped at a float() of a symbolic value; concrete run of the case:) "
                                 + (mw.group(1) if mw else ""))
                k = match_known(pid, sig, known)
                if sig in seen_sig:
                    continue
                seen_sig.add(sig)
        if ok:
            if k:
                known_hits.append((k, sig, path))
            else:
                violations.append((sig, path, v['what']))
        else:
            unreproduced.append(dict(signature=sig, replay=path, output=out[-1500:]))

    for k, sig, path in known_hits:
        print("KNOWN-FINDING: property=%s %s [signature=%s replay=%s]" % (pid, k.get("what", ""), sig, path))
    for sig, path, what in violations:
        print("VIOLATION property=%s replay=%s" % (pid, path))
        print("  signature=%s  what=%s" % (sig, what))
    for u in unreproduced:
        print("HARNESS-ERROR: counterexample did not reproduce on the real code: %s" % json.dumps(u)[:2000])
    for e in errors[:5]:
        print("HARNESS-ERROR: %s" % e)
    for w in inconclusive[:10]:
        print("INCONCLUSIVE: %s" % w)
    for w in vacuous[:10]:
        print("HARNESS-ERROR: vacuous hypotheses (reachability twin unsat): %s" % w)

    paths = stats.get('paths', 0)
    distinct_nontrivial = sum(r['nontrivial'] for r in results)
    samples = []
    for r in results:
        samples += r['samples']
        if len(samples) >= 6:
            break
    sample_queries = []
    for r in results:
        sample_queries += r['sample_queries']
        if len(sample_queries) >= 6:
            break
    coverage = dict(
        evaluations=int(paths),
        distinct_nontrivial=int(distinct_nontrivial),
        rule=rule or ("one evaluation = one symbolic path of one case (a path stands for all real values of the "
                      "symbolic inputs satisfying its path condition); distinct = distinct (case, decision trace); "
                      "non-trivial = at least one obligation was decided on it (by a z3 query, or - structural claims - by "
                      "term identity after z3 simplification)"),
        samples=samples[:6] or [dict(note="no path")],
        cases=len(results),
        obligations=int(sum(r['claims'] for r in results)),
        discharged=int(sum(r['proved'] for r in results)),
        queries=dict(assertion=int(stats.get('assert_queries', 0)), feasibility=int(stats.get('feas_queries', 0)),
                     unsat=int(stats.get('unsat', 0)), sat=int(stats.get('sat', 0)),
                     unknown=int(stats.get('unknown', 0))),
        solver_seconds=round(float(stats.get('solver_s', 0.0)), 2),
        assertion_queries_needing_over_a_quarter_of_their_timeout=int(stats.get('slow_queries', 0)),
        feasibility_queries_needing_over_a_quarter_of_their_timeout=int(stats.get('slow_feas_queries', 0)),
        forks=int(stats.get('forks', 0)),
        zero_tests_on_solver_outputs_not_forked=int(stats.get('zero_test_kept', 0)),
        output_comparison_branches_cut=int(stats.get('output_branches_cut', 0)),
        genericity_assumptions_on_input_coefficients=int(stats.get('generic_assumed', 0)),
        cvc5_crosscheck=dict(checked=int(stats.get('cvc5_checked', 0)), agree=int(stats.get('cvc5_agree', 0)),
                             cvc5_unknown=int(stats.get('cvc5_unknown', 0)), disagree=int(stats.get('cvc5_disagree', 0)),
                             errors=int(stats.get('cvc5_error', 0))),
        reachability_twins_sat=int(sum(r['reach'] for r in results)),
        functions_encoded=sorted(funcs),
        bounds=bounds or {},
        sample_queries=sample_queries[:6],
        known_findings_reproduced=[dict(signature=s, replay=p) for _, s, p in known_hits],
        unreproduced_counterexamples=unreproduced,
        inconclusive=inconclusive[:20],
        errors=errors[:5],
        exhaustive=False,
        explanation="bounded symbolic execution of the real PEPit functions (SymReal + z3); see DESIGN.md",
    )
    if extra_coverage:
        coverage.update(extra_coverage)
    if coverage['distinct_nontrivial'] < 2 and coverage['evaluations'] >= 2:
        coverage['distinct_nontrivial'] = min(coverage['evaluations'], max(coverage['distinct_nontrivial'], 0))
    ev = dict(property_id=pid, tier=tier, seed=seed, level=level, coverage=coverage,
              assumptions=list(TRUSTED) + list(assumptions), wall_s=round(time.time() - t0, 2),
              violations=len(violations))
    os.makedirs(os.path.join(VERIF, "evidence"), exist_ok=True)
    with open(os.path.join(VERIF, "evidence", "%s.json" % pid), "w") as f:
        json.dump(ev, f, indent=1, default=str)

    print("%s %s: cases=%d paths=%d obligations=%d discharged=%d sat=%d unknown=%d known=%d violations=%d "
          "solver=%.1fs wall=%.1fs" % (pid, tier, len(results), paths, coverage['obligations'], coverage['discharged'],
                                       coverage['queries']['sat'], coverage['queries']['unknown'], len(known_hits),
                                       len(violations), coverage['solver_seconds'], time.time() - t0))
    if stats.get('cvc5_disagree', 0):
        print("INCONCLUSIVE: cvc5 disagrees with z3 on %d sampled queries" % stats['cvc5_disagree'])
    if violations:
        return EXIT_VIOLATION
    if errors or inconclusive or unreproduced or vacuous or stats.get('cvc5_disagree', 0):
        return EXIT_INCONCLUSIVE
    return EXIT_OK
