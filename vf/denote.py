"""Denotation of PEPit objects, independent of PEPit's own eval (DESIGN 2.6).  Works on SymReal and on floats."""
from PEPit.point import Point
from PEPit.expression import Expression


def _py(w):
    """numpy scalars -> Python scalars (np.float64.__mul__ would call float() on a symbolic operand)"""
    return w.item() if hasattr(w, 'item') and not isinstance(w, float) or type(w).__module__ == 'numpy' else w


def dot(u, v):
    tot = 0
    for a, b in zip(u, v):
        tot = tot + a * b
    return tot


def den_point(p, P, dim):
    """[[p]] in R^dim given leaf assignment P: leaf Point -> list of scalars."""
    out = [0] * dim
    for leaf, w in p.decomposition_dict.items():
        w = _py(w)
        if not isinstance(leaf, Point) or not leaf.get_is_leaf():
            raise TypeError("point decomposition over a non-leaf key: %r" % (leaf,))
        vec = P[leaf]
        for k in range(dim):
            out[k] = out[k] + w * vec[k]
    return out


def den_expr(e, P, F):
    """[[e]] given leaf points P (vectors) and leaf expressions F (scalars)."""
    tot = 0
    for key, w in e.decomposition_dict.items():
        w = _py(w)
        if type(key) is tuple:
            p, q = key
            tot = tot + w * dot(P[p], P[q])
        elif isinstance(key, Expression):
            tot = tot + w * F[key]
        elif type(key) is int and key == 1:
            tot = tot + w
        else:
            raise TypeError("unexpected key in expression decomposition: %r" % (key,))
    return tot


def den_expr_gram(e, G, F):
    """[[e]] as an affine form of Gram entries: G maps (leaf_i, leaf_j) -> scalar (symmetric), F leaf expr -> scalar."""
    tot = 0
    for key, w in e.decomposition_dict.items():
        w = _py(w)
        if type(key) is tuple:
            tot = tot + w * G[key]
        elif isinstance(key, Expression):
            tot = tot + w * F[key]
        elif type(key) is int and key == 1:
            tot = tot + w
        else:
            raise TypeError("unexpected key in expression decomposition: %r" % (key,))
    return tot


def canon(e):
    """Canonical coefficient map of an expression: ('G', i, j) with i<=j (leaf counters), ('F', k), 'c'."""
    out = {}

    def add(k, w):
        out[k] = out[k] + w if k in out else w

    for key, w in e.decomposition_dict.items():
        w = _py(w)
        if type(key) is tuple:
            i, j = key[0].counter, key[1].counter
            if i > j:
                i, j = j, i
            add(('G', i, j), w)
        elif isinstance(key, Expression):
            add(('F', key.counter), w)
        elif type(key) is int and key == 1:
            add('c', w)
        else:
            raise TypeError("unexpected key in expression decomposition: %r" % (key,))
    return out


def snapshot(obj):
    """Shallow snapshot of a decomposition dict (keys by identity, values as they are)."""
    return [(k, v) for k, v in obj.decomposition_dict.items()]



def registered_functions():
    """the functions of the class-level registry, whatever holds them there (objects or weak references)"""
    import weakref
    from PEPit import Function
    out = []
    for f in Function.list_of_functions:
        if isinstance(f, weakref.ReferenceType):
            f = f()
        if f is not None:
            out.append(f)
    return out
