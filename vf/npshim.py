"""numpy shim: forwards to real numpy but keeps SymReal elements alive (dtype=object) and replaces the LAPACK
routines by their documented contracts over fresh symbols (pool 'linalg').  Installed as module attribute `np`
of the PEPit modules, from the outside (no source hook)."""
import numpy as np
import z3

from . import engine as E
from .engine import SymReal, lift


def _symbols(x):
    """names of the z3 constants occurring in a scalar / array of (symbolic) values"""
    out = set()
    items = x.flat if isinstance(x, np.ndarray) else (x if isinstance(x, (list, tuple)) else [x])
    for v in items:
        t = lift(v) if not isinstance(v, (np.ndarray, list, tuple)) else None
        if t is None:
            if isinstance(v, (np.ndarray, list, tuple)):
                out |= _symbols(v)
            continue
        st = [t]
        seen = set()
        while st:
            u = st.pop()
            if u.get_id() in seen:
                continue
            seen.add(u.get_id())
            if z3.is_const(u) and u.decl().kind() == z3.Z3_OP_UNINTERPRETED:
                out.add(u.decl().name())
            st.extend(u.children())
    return out


def _record(outputs, inputs):
    """provenance: which symbols each fresh contract symbol was derived from (engine.provenance)"""
    eng = E.ENGINE
    if eng is None:
        return
    prov = getattr(eng, 'provenance', None)
    if prov is None:
        prov = eng.provenance = {}
    src = _symbols(inputs)
    for name in _symbols(outputs):
        prov.setdefault(name, set()).update(src)


def provenance_closure(eng, names):
    prov = getattr(eng, 'provenance', {}) or {}
    seen = set()
    st = list(names)
    while st:
        n = st.pop()
        if n in seen:
            continue
        seen.add(n)
        st.extend(prov.get(n, ()))
    return seen


def _has_sym(x):
    if isinstance(x, SymReal):
        return True
    if isinstance(x, np.ndarray):
        if x.dtype != object:
            return False
        return any(isinstance(v, SymReal) for v in x.flat)
    if isinstance(x, (list, tuple)):
        return any(_has_sym(v) for v in x)
    return False


class SymArray(np.ndarray):
    """object array whose comparisons fork element-wise (numpy itself would call float() on a symbolic operand)
    and return a plain boolean array - exactly what the real float comparison returns on each path"""
    __array_priority__ = 100

    def _cmp(self, other, op):
        other_arr = isinstance(other, np.ndarray)
        out = np.empty(self.shape, dtype=bool)
        for idx in np.ndindex(*self.shape):
            o = other[idx] if other_arr else other
            out[idx] = bool(op(self[idx], o))
        return out

    def __ge__(self, o):
        return self._cmp(o, lambda a, b: a >= b)

    def __gt__(self, o):
        return self._cmp(o, lambda a, b: a > b)

    def __le__(self, o):
        return self._cmp(o, lambda a, b: a <= b)

    def __lt__(self, o):
        return self._cmp(o, lambda a, b: a < b)

    def __getitem__(self, idx):
        r = np.ndarray.__getitem__(self, idx)
        return r

    __hash__ = None


LAST_EIGH = []      # (w, V, M) of every symbolic eigh call of the current path (read by C02)


class _Linalg:
    def __init__(self, shim):
        self.shim = shim

    def __getattr__(self, n):
        return getattr(np.linalg, n)

    def eigh(self, M):
        M = np.asarray(M)
        if not _has_sym(M):
            return np.linalg.eigh(M.astype(float))
        eng = E.ENGINE
        n = M.shape[0]
        w = np.empty(n, dtype=object)
        V = np.empty((n, n), dtype=object)
        for i in range(n):
            w[i] = eng.fresh('eig', output=True)
            for j in range(n):
                V[i, j] = eng.fresh('V', output=True)
        for i in range(n):
            for j in range(i, n):
                # the real routine reads the lower triangle only
                eng.assume(lift(sum(V[i, k] * w[k] * V[j, k] for k in range(n))) == lift(M[j, i]), 'linalg')
                eng.assume(lift(sum(V[k, i] * V[k, j] for k in range(n))) == (1 if i == j else 0), 'linalg')
        for i in range(n - 1):
            eng.assume(w[i].t <= w[i + 1].t, 'linalg')
        _record([w, V], M)
        LAST_EIGH.append((w, V, M))
        return w.view(SymArray), V

    def qr(self, A, mode='reduced'):
        A = np.asarray(A)
        if not _has_sym(A):
            return np.linalg.qr(A.astype(float), mode=mode)
        assert mode == 'r'
        eng = E.ENGINE
        m, n = A.shape
        k = min(m, n)
        R = np.empty((k, n), dtype=object)
        for i in range(k):
            for j in range(n):
                R[i, j] = eng.fresh('R', output=True) if i <= j else 0
        for i in range(n):
            for j in range(i, n):
                eng.assume(lift(sum(R[l, i] * R[l, j] for l in range(k))) ==
                           lift(sum(A[l, i] * A[l, j] for l in range(m))), 'linalg')
        return R

    def inv(self, A):
        A = np.asarray(A)
        if not _has_sym(A):
            return np.linalg.inv(A.astype(float))
        eng = E.ENGINE
        n = A.shape[0]
        W = np.empty((n, n), dtype=object)
        # the inverse of a symmetric matrix is symmetric: when A[i,j] - A[j,i] normalises to 0 as a polynomial for all
        # i < j, the contract returns a symmetric W
        import z3
        symmetric = all(z3.is_rational_value(d) and d.numerator_as_long() == 0
                        for i in range(n) for j in range(i)
                        for d in [z3.simplify(lift(A[i, j]) - lift(A[j, i]), som=True)])
        for i in range(n):
            for j in range(n):
                W[i, j] = W[j, i] if (symmetric and j < i) else eng.fresh('inv', output=True)
        for i in range(n):
            for j in range(n):
                eng.assume(lift(sum(W[i, l] * A[l, j] for l in range(n))) == (1 if i == j else 0), 'linalg')
        _record(W, A)
        return W


class NPShim:
    def __init__(self):
        self.linalg = _Linalg(self)

    def __getattr__(self, n):
        return getattr(np, n)

    # ---- constructors: object arrays so that SymReal survives ------------------------------------
    def zeros(self, shape, dtype=None, **kw):
        if dtype is not None and dtype is not float and dtype is not np.float64:
            return np.zeros(shape, dtype=dtype, **kw)   # explicit integer dtypes keep the real semantics
        a = np.empty(shape, dtype=object)
        a.fill(0)
        return a

    def empty(self, shape, dtype=None, **kw):
        return np.empty(shape, dtype=object)

    def array(self, x, dtype=None, **kw):
        if dtype is not None and dtype is not float and dtype is not np.float64:
            return np.array(x, dtype=dtype, **kw)
        if _has_sym(x):
            return np.array(x, dtype=object)
        return np.array(x, **kw)

    def identity(self, n, **kw):
        a = self.zeros((n, n))
        for i in range(n):
            a[i, i] = 1
        return a

    def eye(self, n, **kw):
        return self.identity(n)

    def diag(self, v):
        v = np.asarray(v)
        if v.dtype != object:
            return np.diag(v)
        if v.ndim == 1:
            n = v.shape[0]
            a = self.zeros((n, n))
            for i in range(n):
                a[i, i] = v[i]
            return a
        return np.array([v[i, i] for i in range(v.shape[0])], dtype=object)

    # ---- element-wise / reductions ----------------------------------------------------------------
    def sqrt(self, x):
        if not _has_sym(x):
            return np.sqrt(np.asarray(x, dtype=float) if isinstance(x, np.ndarray) else x)
        eng = E.ENGINE
        if isinstance(x, SymReal):
            return eng.sqrt(x)
        x = np.asarray(x, dtype=object)
        out = np.empty(x.shape, dtype=object)
        for idx in np.ndindex(*x.shape):
            out[idx] = eng.sqrt(x[idx]) if isinstance(x[idx], SymReal) else float(np.sqrt(x[idx]))
        return out

    def maximum(self, x, c):
        if not _has_sym(x) and not _has_sym(c):
            return np.maximum(x, c)
        x = np.asarray(x, dtype=object)
        out = np.empty(x.shape, dtype=object)
        for idx in np.ndindex(*x.shape):
            v = x[idx]
            out[idx] = SymReal(z3.If(lift(v) >= lift(c), lift(v), lift(c)))
        return out

    def _minmax(self, x, is_min):
        if not _has_sym(x):
            return (np.min if is_min else np.max)(x)
        eng = E.ENGINE
        vals = [v for v in np.asarray(x, dtype=object).ravel()]
        m = eng.fresh('min' if is_min else 'max', output=True)
        eng.assume(z3.And(*[(m.t <= lift(v)) if is_min else (m.t >= lift(v)) for v in vals]), 'linalg')
        eng.assume(z3.Or(*[m.t == lift(v) for v in vals]), 'linalg')
        return m

    def min(self, x, *a, **kw):
        return self._minmax(x, True)

    def max(self, x, *a, **kw):
        return self._minmax(x, False)

    def abs(self, x):
        if isinstance(x, SymReal):
            return abs(x)
        if not _has_sym(x):
            return np.abs(x)
        x = np.asarray(x, dtype=object)
        out = np.empty(x.shape, dtype=object)
        for idx in np.ndindex(*x.shape):
            out[idx] = abs(x[idx])
        return out

    def sum(self, x, *a, **kw):
        if isinstance(x, np.ndarray) and x.dtype != object:
            return np.sum(x, *a, **kw)
        xs = np.asarray(x, dtype=object)
        tot = 0
        for v in xs.flat:
            tot = tot + v
        return tot

    def dot(self, a, b):
        if isinstance(a, np.ndarray) and isinstance(b, np.ndarray) and a.dtype != object and b.dtype != object:
            return np.dot(a, b)
        return np.dot(np.asarray(a, dtype=object), np.asarray(b, dtype=object))

    def tril(self, m, k=0):
        m = np.asarray(m)
        if m.dtype != object:
            return np.tril(m, k)
        out = m.copy()
        n0, n1 = m.shape
        for i in range(n0):
            for j in range(n1):
                if j > i + k:
                    out[i, j] = 0
        return out

    def argwhere(self, m):
        m = np.asarray(m)
        if m.dtype != object:
            return np.argwhere(m)
        # symbolic entries: keep every entry that is not the literal 0 (a possibly-zero weight is still a valid entry)
        idx = [list(i) for i in np.ndindex(*m.shape) if not (type(m[i]) in (int, float) and m[i] == 0)]
        return np.array(idx, dtype=int).reshape(-1, m.ndim)


SHIM = NPShim()
_PEPIT_MODULES = ["PEPit.pep", "PEPit.point", "PEPit.expression", "PEPit.psd_matrix", "PEPit.function",
                  "PEPit.tools.expressions_to_matrices", "PEPit.wrappers.mosek_wrapper", "PEPit.wrappers.cvxpy_wrapper"]


def install():
    import importlib
    for name in _PEPIT_MODULES:
        try:
            m = importlib.import_module(name)
        except ImportError:
            continue
        if hasattr(m, 'np'):
            m.np = SHIM
    return SHIM
