"""Contract stub for the SDP solver behind the cvxpy stand-in (DESIGN 2.4).

For status 'optimal' it returns fresh solver-output symbols for every primal unknown and every dual, constrained
only by: primal feasibility (pool 'primal<k>'), Lagrangian stationarity + dual signs (pool 'kkt<k>').  Which optimal
primal-dual pair is returned is left to z3.  cvxpy's conventions (validated against real cvxpy/SCS, see
vf/validate_standin.py): for a Maximize problem, with L = -obj + sum_le y e + sum_eq nu e - <S, X>,
`dual_value` of `e <= 0` is y >= 0, of `e == 0` is nu (free), of `X >> 0` is S (PSD), and dL/d(unknown) = 0.
"""
import numpy as np
import z3

from .engine import SymReal, lift


class Solve:
    """what one call of Problem.solve() produced"""

    def __init__(self, k):
        self.k = k
        self.status = None
        self.x = {}            # (var, idx) -> value symbol
        self.duals = []        # per constraint of prob.constraints: SymReal | ndarray | None
        self.problem = None
        self.stationarity = {}  # (var, idx) -> Lagrangian coefficient (must be 0)
        self.psd_primal = []   # (Variable, ndarray of symbols): PSD by contract
        self.psd_dual = []     # (Constraint, ndarray of symbols): PSD by contract
        self.row_values = []   # (Constraint, value of its expression at the returned primal point)


class CvxStub:
    def __init__(self, env, statuses=('optimal',), prefix=""):
        self.env = env
        self.statuses = tuple(statuses)
        self.solves = []
        self.prefix = prefix

    def install(self):
        import cvxpy as cp
        assert getattr(cp, 'STANDIN', False), "real cvxpy imported in the symbolic process"
        cp.reset()
        cp.SOLVER_HOOK[0] = self
        return self

    def __call__(self, prob, **kw):
        import cvxpy as cp
        env = self.env
        k = len(self.solves)
        sv = Solve(k)
        sv.problem = prob
        self.solves.append(sv)
        status = self.statuses[env.choose(len(self.statuses), 'solver-status')] if len(self.statuses) > 1 \
            else self.statuses[0]
        sv.status = status
        prob.status = status
        vars_ = cp.variables()
        if not status.startswith('optimal'):        # 'optimal_inaccurate' also comes with a solution (same contract)
            for v in vars_:
                v._value = None
            for c in prob.constraints:
                c.dual_value = None
            prob.value = {'infeasible': -np.inf, 'unbounded': np.inf}.get(status.replace('_inaccurate', ''), None)
            if prob.objective.sense == 'min' and prob.value is not None:
                prob.value = -prob.value
            return prob.value
        pre = "%sx%d." % (self.prefix, k)
        # ---- primal --------------------------------------------------------------------------------
        for v in vars_:
            val = np.empty(v.shape, dtype=object)
            for idx in np.ndindex(*v.shape):
                key = v.key(idx)
                if key not in sv.x:
                    sv.x[key] = env.out("%sv%d_%s" % (pre, v.id, "_".join(map(str, key[1]))))
                val[idx] = sv.x[key]
            v._value = val
        for c in prob.constraints:
            if c.kind == 'psd':
                sv.psd_primal.append((c.expr, c.expr._value))
            else:
                e = c.expr.value
                env.assume(env.le(e, 0) if c.kind == 'le' else env.eq(e, 0), 'primal%d' % k)
                sv.row_values.append((c, e))
        # ---- duals ---------------------------------------------------------------------------------
        lag = {}

        def acc(key, v):
            lag[key] = lag[key] + v if key in lag else v

        sign = -1 if prob.objective.sense == 'max' else 1
        for key, v in prob.objective.expr.terms.items():
            acc(key, sign * v)
        for ci, c in enumerate(prob.constraints):
            if c.kind == 'psd':
                var = c.expr
                n = var.shape[0]
                d = np.empty((n, n), dtype=object)
                for i in range(n):
                    for j in range(i, n):
                        s = env.out("%sS%d_%d_%d" % (pre, ci, i, j))
                        d[i, j] = s
                        d[j, i] = s
                c.dual_value = d
                sv.duals.append(d)
                sv.psd_dual.append((c, d))
                for i in range(n):
                    for j in range(n):
                        acc(var.key((i, j)), -d[i, j])
            else:
                y = env.out("%sy%d" % (pre, ci))
                c.dual_value = y
                sv.duals.append(y)
                if c.kind == 'le':
                    env.assume(env.ge(y, 0), 'kkt%d' % k)
                    env.assume(env.eq(y * c.expr.value, 0), 'cs%d' % k)    # complementary slackness
                for key, v in c.expr.terms.items():
                    acc(key, y * v)
        for v in vars_:
            for key in v.keys():
                lag.setdefault(key, 0)
        sv.stationarity = lag
        for key, coef in lag.items():
            env.assume(env.eq(coef, 0), 'kkt%d' % k)
        prob.value = prob.objective.expr.value
        # strong duality / complementary slackness (pool 'gap<k>'): the Lagrangian is constant at a KKT point and
        # equals sign*objective at the optimum
        const = sign * prob.objective.expr.const
        for ci, c in enumerate(prob.constraints):
            if c.kind != 'psd':
                const = const + sv.duals[ci] * c.expr.const
        env.assume(env.eq(sign * prob.value, const), 'gap%d' % k)
        sv.primal_value = prob.value
        return prob.value


def psd_hypothesis(M, eng=None):
    """z3 formula: the symmetric matrix of terms M is PSD (all principal minors >= 0; n <= 3)."""
    n = M.shape[0]
    L = [[lift(M[i][j]) for j in range(n)] for i in range(n)]
    cs = []
    import itertools
    for r in range(1, n + 1):
        for idx in itertools.combinations(range(n), r):
            cs.append(_det([[L[i][j] for j in idx] for i in idx]) >= 0)
    return z3.And(*cs)


def _det(A):
    n = len(A)
    if n == 1:
        return A[0][0]
    if n == 2:
        return A[0][0] * A[1][1] - A[0][1] * A[1][0]
    tot = 0
    for j in range(n):
        minor = [[A[i][c] for c in range(n) if c != j] for i in range(1, n)]
        term = A[0][j] * _det(minor)
        tot = tot + term if j % 2 == 0 else tot - term
    return tot


class MosekSolve:
    def __init__(self, k):
        self.k = k
        self.status = None
        self.xx = None
        self.barx = None       # per barvar: dense symmetric ndarray of symbols
        self.y = None
        self.bars = None       # per barvar: dense symmetric ndarray (MOSEK's Sbar_j)
        self.sense = None
        self.psd_dual = []     # (barvar index, dense matrix that is PSD by contract)


def _tril_vec(M):
    """dense symmetric -> MOSEK's lower-triangular column-major vector"""
    n = M.shape[0]
    out = []
    for j in range(n):
        for i in range(j, n):
            out.append(M[i, j])
    return out


class MosekStub:
    """KKT contract of MOSEK's interior-point optimizer on a recorded stand-in Task (MOSEK manual conventions:
    max problem:  A^T y + s_l^x - s_u^x = c,  sum_i y_i Abar_ij + Sbar_j = Cbar_j with Sbar_j NSD,
    y = s_l^c - s_u^c with s <= 0  (so y >= 0 on an upper-bounded row);  min problem: signs reversed)."""

    def __init__(self, env, statuses=('optimal',), prefix=""):
        self.env = env
        self.statuses = tuple(statuses)
        self.solves = []
        self.prefix = prefix

    def install(self):
        import mosek
        assert getattr(mosek, 'STANDIN', False)
        mosek.OPTIMIZE_HOOK[0] = self
        return self

    def __call__(self, task, **kw):
        import mosek
        env = self.env
        k = len(self.solves)
        sv = MosekSolve(k)
        self.solves.append(sv)
        sv.task = task
        status = self.statuses[env.choose(len(self.statuses), 'solver-status')] if len(self.statuses) > 1 \
            else self.statuses[0]
        sv.status = status
        sv.sense = task.sense
        pre = "%sm%d." % (self.prefix, k)
        xx = []
        for j in range(task.numvar):
            bk, bl, bu = task.varbound[j]
            if bk == mosek.boundkey.fx and status == 'optimal':
                xx.append(bl)
            else:
                xx.append(env.out("%sxx%d" % (pre, j)))
        barx, bars = [], []
        for j, n in enumerate(task.barvar_dims):
            X = np.empty((n, n), dtype=object)
            S = np.empty((n, n), dtype=object)
            for r in range(n):
                for c in range(r + 1):
                    X[r, c] = X[c, r] = env.out("%sX%d_%d_%d" % (pre, j, c, r))
                    S[r, c] = S[c, r] = env.out("%sSb%d_%d_%d" % (pre, j, c, r))
            barx.append(X)
            bars.append(S)
        y = [env.out("%sy%d" % (pre, i)) for i in range(task.numcon)]
        sv.xx, sv.barx, sv.y, sv.bars = xx, barx, y, bars
        sol = dict(xx=np.array(xx, dtype=object), barx=[_tril_vec(X) for X in barx], y=np.array(y, dtype=object),
                   bars=[_tril_vec(S) for S in bars])
        if status != 'optimal':
            sol['prosta'] = {'infeasible': mosek.prosta.prim_infeas, 'unbounded': mosek.prosta.dual_infeas}.get(
                status, mosek.prosta.unknown)
            sol['solsta'] = mosek.solsta.unknown
            return sol
        sol['prosta'] = mosek.prosta.prim_and_dual_feas
        sol['solsta'] = mosek.solsta.optimal
        mx = task.sense == mosek.objsense.maximize
        # ---- primal feasibility -----------------------------------------------------------------------
        sv.rows = []
        for i in range(task.numcon):
            bars_i, lin, (bk, bl, bu) = task.row(i)
            val = 0
            for j, Aij in bars_i.items():
                val = val + np.sum(Aij * barx[j])
            for j, a in lin.items():
                val = val + a * xx[j]
            sv.rows.append(val)
            if bk == mosek.boundkey.up:
                env.assume(env.eq(y[i] * (val - bu), 0), 'cs%d' % k)      # complementary slackness
            if bk == mosek.boundkey.lo:
                env.assume(env.eq(y[i] * (val - bl), 0), 'cs%d' % k)
            if bk in (mosek.boundkey.up, mosek.boundkey.ra):
                env.assume(env.le(val, bu), 'primal%d' % k)
            if bk in (mosek.boundkey.lo, mosek.boundkey.ra):
                env.assume(env.ge(val, bl), 'primal%d' % k)
            if bk == mosek.boundkey.fx:
                env.assume(env.eq(val, bl), 'primal%d' % k)
        # ---- dual side -----------------------------------------------------------------------------------
        for i in range(task.numcon):
            bk = task.conbound[i][0]
            if bk == mosek.boundkey.up:
                env.assume(env.ge(y[i], 0) if mx else env.le(y[i], 0), 'kkt%d' % k)
            elif bk == mosek.boundkey.lo:
                env.assume(env.le(y[i], 0) if mx else env.ge(y[i], 0), 'kkt%d' % k)
            elif bk == mosek.boundkey.fr:
                env.assume(env.eq(y[i], 0), 'kkt%d' % k)
        for j in range(task.numvar):
            if task.varbound[j][0] != mosek.boundkey.fr:
                continue   # bounded variable: s^x absorbs the reduced cost
            tot = 0
            for (i, jj), a in task.A.items():
                if jj == j:
                    tot = tot + y[i] * a
            env.assume(env.eq(tot, task.c.get(j, 0)), 'kkt%d' % k)
        for j, n in enumerate(task.barvar_dims):
            tot = np.empty((n, n), dtype=object)
            tot.fill(0)
            for (i, jj), lst in task.barA.items():
                if jj == j:
                    tot = tot + y[i] * task.bar_dense(lst, n)
            Cj = task.bar_dense(task.barC.get(j, []), n)
            for r in range(n):
                for c in range(r + 1):
                    env.assume(env.eq(tot[r, c] + bars[j][r, c], Cj[r, c]), 'kkt%d' % k)
            sv.psd_dual.append((j, -bars[j] if mx else bars[j]))
        # strong duality (pool 'gap<k>'): primal objective = sum_i y_i * (active bound of row i)
        pobj = 0
        for j, cj in task.c.items():
            pobj = pobj + cj * xx[j]
        for j, lst in task.barC.items():
            pobj = pobj + np.sum(task.bar_dense(lst, task.barvar_dims[j]) * barx[j])
        dobj = 0
        for i in range(task.numcon):
            bk, bl, bu = task.conbound[i]
            if bk == mosek.boundkey.up:
                dobj = dobj + y[i] * bu
            elif bk in (mosek.boundkey.lo, mosek.boundkey.fx):
                dobj = dobj + y[i] * bl
        env.assume(env.eq(pobj, dobj), 'gap%d' % k)
        sv.primal_value = pobj
        return sol
