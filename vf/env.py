"""Harness environments.

A harness is a function `prog(env, case)` using only `env` to obtain inputs and to state claims.  It runs
 * under `SymEnv`: inputs are symbolic reals, structure choices fork, claims are z3 validity queries;
 * under `ConcEnv`: inputs come from a counter-model, the real PEPit runs on real numpy / cvxpy, and the
   same claims are evaluated numerically with a tolerance.  This is the replay path.
"""
import z3
from . import engine as E
from .engine import SymReal, SymBool, lift, cond_of


class ReplayMismatch(Exception):
    """The concrete run left the path the counter-model belongs to."""


class Violation:
    def __init__(self, what, signature, values, choices, detail=None):
        self.what = what
        self.signature = signature
        self.values = values
        self.choices = choices
        self.detail = detail or {}

    def to_json(self):
        return dict(what=self.what, signature=self.signature, values=self.values, choices=self.choices,
                    detail=self.detail)


class SymEnv:
    sym = True

    def __init__(self, eng):
        self.eng = eng
        self.violations = []       # Violation candidates found on any path of this exploration
        self.proved = 0
        self.claims = 0
        self.inconclusive = []
        self.reach = 0             # reachability twins that came back sat
        self.vacuous = []
        self.names = {}            # name -> SymReal declared on this path (inputs and stub outputs)
        self.seen_signatures = set()

    # ---- inputs -----------------------------------------------------------------------------------
    def real(self, name, lo=None, hi=None, lo_strict=False, hi_strict=False):
        if name in self.names:
            return self.names[name]
        v = self.eng.real(name)
        self.names[name] = v
        if lo is not None:
            self.eng.assume(v.t > lift(lo) if lo_strict else v.t >= lift(lo))
        if hi is not None:
            self.eng.assume(v.t < lift(hi) if hi_strict else v.t <= lift(hi))
        return v

    def out(self, name):
        """solver-output symbol (not forked on zero tests), recorded for replay"""
        if name in self.names:
            return self.names[name]
        v = self.eng.out(name)
        self.names[name] = v
        return v

    def register(self, name, v):
        self.names[name] = v

    def choose(self, n, label=""):
        return self.eng.choose(n, label)

    def assume(self, cond, pool='path'):
        self.eng.assume(cond_of(cond), pool)

    def decide(self, cond):
        """fork explicitly on a condition"""
        return bool(cond) if isinstance(cond, (bool, SymBool)) else self.eng.decide(cond_of(cond))

    # ---- claim builders (never fork) --------------------------------------------------------------
    @staticmethod
    def eq(a, b):
        return lift(a) == lift(b)

    @staticmethod
    def le(a, b):
        return lift(a) <= lift(b)

    @staticmethod
    def ge(a, b):
        return lift(a) >= lift(b)

    @staticmethod
    def lt(a, b):
        return lift(a) < lift(b)

    @staticmethod
    def conj(cs):
        cs = [cond_of(c) for c in cs]
        return z3.And(*cs) if cs else z3.BoolVal(True)

    @staticmethod
    def disj(cs):
        cs = [cond_of(c) for c in cs]
        return z3.Or(*cs) if cs else z3.BoolVal(False)

    @staticmethod
    def neg(c):
        return z3.Not(cond_of(c))

    @staticmethod
    def implies(a, b):
        return z3.Implies(cond_of(a), cond_of(b))

    # ---- claims -----------------------------------------------------------------------------------
    def check(self, claim, what, signature=None, pools=(), strong_neg=None, timeout_ms=None, detail=None,
              model_pools=()):
        """z3 validity of `claim` under path condition + pools.  Records a violation candidate on sat."""
        self.claims += 1
        if isinstance(claim, bool):
            # decided concretely by the structure of the path (e.g. an object identity)
            if claim:
                self.proved += 1
                return True
            r, m = self.eng.satisfiable(pools)
            if r == 'unsat':
                self.proved += 1  # path infeasible: vacuous
                return True
            if r == 'unknown':
                r2, m = self.eng.satisfiable(())
                if r2 != 'sat':
                    self.inconclusive.append(what)
                    return False
        else:
            r, m = self.eng.valid(claim, pools, timeout_ms=timeout_ms)
            if r == 'unsat':
                self.proved += 1
                return True
            if r == 'unknown':
                self.inconclusive.append(what)
                return False
        sig = signature or what
        if sig in self.seen_signatures:
            return False
        self.seen_signatures.add(sig)
        m = self._nicer_model(claim, tuple(pools) + tuple(model_pools), strong_neg, m)
        values = {}
        if m is not None:
            for n, v in self.names.items():
                values[n] = E.model_value(m, v)
        choices = [d for (k, _, d) in self.eng.decisions if k == 'c']
        self.violations.append(Violation(what, sig, values, choices, detail))
        return False

    def record_violation(self, what, signature, model, detail=None):
        """register a counterexample found by an auxiliary query (e.g. the NRA helper)"""
        if signature in self.seen_signatures:
            return
        self.seen_signatures.add(signature)
        values = {}
        if model is not None:
            for n, v in self.names.items():
                values[n] = E.model_value(model, v)
        choices = [d for (k, _, d) in self.eng.decisions if k == 'c']
        self.violations.append(Violation(what, signature, values, choices, detail))

    def check_rel(self, term, rel, what, signature=None, timeout_ms=30000, detail=None):
        """term rel 0 (rel in '<=', '>=', '==') by the factoring NRA procedure under the path condition"""
        from . import nra
        self.claims += 1
        self.eng.stats['assert_queries'] += 1
        import time as _t
        t0 = _t.time()
        r, m, info = nra.decide(term, rel, self.eng.hyps(), timeout_ms=timeout_ms)
        if nra.SLOW[0]:
            self.eng.stats['slow_queries'] = self.eng.stats.get('slow_queries', 0) + nra.SLOW[0]
            nra.SLOW[0] = 0
        self.eng.stats['solver_s'] += _t.time() - t0
        self.eng.stats[r] += 1
        if len(self.eng.sample_queries) < 3:
            self.eng.sample_queries.append(dict(claim="%s %s 0" % (info.get('num', str(z3.simplify(lift(term)))[:200]), rel),
                                                den=info.get('den'), verdict=r))
        if r == 'unsat':
            self.proved += 1
            return True
        if r == 'unknown':
            self.inconclusive.append(what)
            return False
        # nicer model on the normalised claim is not attempted: replay falls back to default inputs if needed
        claim = {'<=': lift(term) <= 0, '>=': lift(term) >= 0, '==': lift(term) == 0}[rel]
        strong = {'<=': lift(term) >= 0.05, '>=': lift(term) <= -0.05,
                  '==': z3.Or(lift(term) >= 0.05, lift(term) <= -0.05)}[rel]
        m2 = self._nicer_model(claim, (), strong, m)
        self.record_violation(what, signature or what, m2, detail)
        return False

    def check_eq(self, a, b, what, tol_strong=0.125, **kw):
        la, lb = lift(a), lift(b)
        strong = z3.Or(la - lb >= tol_strong, lb - la >= tol_strong)
        return self.check(la == lb, what, strong_neg=strong, **kw)

    def check_le(self, a, b, what, tol_strong=0.125, **kw):
        la, lb = lift(a), lift(b)
        return self.check(la <= lb, what, strong_neg=(la - lb >= tol_strong), **kw)

    def reachable(self, what, pools=()):
        """reachability twin of the assertions on this path: hypotheses must be satisfiable"""
        r, _ = self.eng.satisfiable(pools, timeout_ms=20000)
        if r == 'sat':
            self.reach += 1
        elif r == 'unsat':
            self.vacuous.append(what)
        return r

    def _nicer_model(self, claim, pools, strong_neg, m):
        """Try to get a counter-model with small dyadic values and a clear margin (better replays)."""
        hyps = self.eng.hyps(pools)
        neg = strong_neg if strong_neg is not None else (z3.Not(cond_of(claim)) if not isinstance(claim, bool)
                                                         else z3.BoolVal(True))
        bounds = []
        dyadic = []
        for n, v in self.names.items():
            bounds.append(z3.And(v.t >= -8, v.t <= 8))
            k = z3.Int("k!" + n)
            dyadic.append(v.t * 16 == z3.ToReal(k))
        for extra in (bounds + dyadic, bounds, []):
            for ng in ([neg] if strong_neg is None else [strong_neg, z3.Not(cond_of(claim))]):
                s = z3.Solver()
                s.set('timeout', 4000)
                s.add(*hyps)
                s.add(ng)
                s.add(*extra)
                if s.check() == z3.sat:
                    return s.model()
        return m


class ConcEnv:
    """Concrete replay of a counter-model on the real code."""
    sym = False

    def __init__(self, values, choices, tol=1e-6):
        self.values = values
        self.choices = list(choices)
        self.cpos = 0
        self.tol = tol
        self.failed = []          # claims that fail numerically
        self.claims = 0
        self.proved = 0
        self.inconclusive = []
        self.names = {}
        self.seen_signatures = set()

    def real(self, name, lo=None, hi=None, lo_strict=False, hi_strict=False):
        if name not in self.values:
            raise ReplayMismatch("no value for input %s" % name)
        return float(self.values[name])

    def out(self, name):
        return float(self.values.get(name, 0.0))

    def has(self, name):
        return name in self.values

    def register(self, name, v):
        pass

    def choose(self, n, label=""):
        if self.cpos >= len(self.choices):
            raise ReplayMismatch("choice list exhausted at %s" % label)
        d = self.choices[self.cpos]
        self.cpos += 1
        if not (0 <= d < n):
            raise ReplayMismatch("choice %d out of range %d at %s" % (d, n, label))
        return d

    def assume(self, cond, pool='path'):
        if pool != 'path':
            return
        if not bool(cond):
            raise ReplayMismatch("assumption does not hold in the concrete run")

    def decide(self, cond):
        return bool(cond)

    def _close(self, a, b):
        a = float(a)
        b = float(b)
        return abs(a - b) <= self.tol * (1 + abs(a) + abs(b))

    def eq(self, a, b):
        return self._close(a, b)

    def le(self, a, b):
        return float(a) <= float(b) + self.tol * (1 + abs(float(a)) + abs(float(b)))

    def ge(self, a, b):
        return self.le(b, a)

    def lt(self, a, b):
        return self.le(a, b)

    @staticmethod
    def conj(cs):
        return all(bool(c) for c in cs)

    @staticmethod
    def disj(cs):
        return any(bool(c) for c in cs)

    @staticmethod
    def neg(c):
        return not bool(c)

    @staticmethod
    def implies(a, b):
        return (not bool(a)) or bool(b)

    def check(self, claim, what, signature=None, pools=(), strong_neg=None, timeout_ms=None, detail=None,
              model_pools=()):
        self.claims += 1
        if bool(claim):
            return True
        self.failed.append(dict(what=what, signature=signature or what, detail=detail or {}))
        return False

    def check_rel(self, term, rel, what, signature=None, timeout_ms=None, detail=None):
        t = float(term)
        ok = {'<=': t <= self.tol * (1 + abs(t)), '>=': t >= -self.tol * (1 + abs(t)), '==': abs(t) <= self.tol}[rel]
        return self.check(ok, what + " (value %g)" % t, signature=signature, detail=detail)

    def check_eq(self, a, b, what, **kw):
        kw.pop('tol_strong', None)
        return self.check(self.eq(a, b), what, **kw)

    def check_le(self, a, b, what, **kw):
        kw.pop('tol_strong', None)
        return self.check(self.le(a, b), what, **kw)

    def reachable(self, what, pools=()):
        return 'sat'
