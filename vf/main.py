"""./check entry point."""
import argparse
import importlib
import os
import sys

from . import runner


def main():
    ap = argparse.ArgumentParser()
    ap.add_argument("prop")
    ap.add_argument("--tier", default=os.environ.get("VERIF_TIER") or "quick", choices=["quick", "thorough"])
    ap.add_argument("--replay", default=None)
    ap.add_argument("--only", default=None, help="substring filter on case ids (debugging)")
    a = ap.parse_args()
    pid = a.prop.upper()
    if a.replay:
        ok, out = runner.replay_file(a.replay)
        print(out)
        sys.exit(1 if ok else 0)
    if a.tier == 'thorough' and not os.environ.get("VERIF_CVC5_RATE"):
        os.environ["VERIF_CVC5_RATE"] = "0.02"          # thorough tier: 2% of the assertion queries are re-run with cvc5
    import vf.engine as _eng
    _eng.CVC5_RATE = float(os.environ.get("VERIF_CVC5_RATE", "0") or 0)
    mod = importlib.import_module("vf.props.%s" % pid.lower())
    sys.exit(mod.main(a.tier, only=a.only))


if __name__ == "__main__":
    main()
