"""Numeric emulator behind the mosek stand-in, used ONLY in replays: solves the recorded Task with real cvxpy and
returns numbers in MOSEK's layout and sign conventions, so that PEP.solve(wrapper='mosek') runs end-to-end through
the real MosekWrapper code on concrete floats (MOSEK itself is not installed in this sandbox)."""
import numpy as np


def _tril_vec(M):
    n = M.shape[0]
    return [float(M[i, j]) for j in range(n) for i in range(j, n)]


def optimize(task, **kw):
    import cvxpy as cp
    import mosek
    n = task.numvar
    x = cp.Variable(n) if n else None
    X = [cp.Variable((d, d), symmetric=True) for d in task.barvar_dims]
    cons = [Xj >> 0 for Xj in X]
    row_cons = []
    for i in range(task.numcon):
        bars, lin, (bk, bl, bu) = task.row(i)
        e = 0
        for j, A in bars.items():
            e = e + cp.sum(cp.multiply(np.asarray(A, dtype=float), X[j]))
        for j, a in lin.items():
            e = e + float(a) * x[j]
        c_up = c_lo = c_eq = None
        if isinstance(e, (int, float)):
            row_cons.append((None, None, None))
            continue
        if bk == mosek.boundkey.fx:
            c_eq = (e == float(bl))
            cons.append(c_eq)
        else:
            if bk in (mosek.boundkey.up, mosek.boundkey.ra):
                c_up = (e <= float(bu))
                cons.append(c_up)
            if bk in (mosek.boundkey.lo, mosek.boundkey.ra):
                c_lo = (e >= float(bl))
                cons.append(c_lo)
        row_cons.append((c_up, c_lo, c_eq))
    for j in range(n):
        bk, bl, bu = task.varbound[j]
        if bk == mosek.boundkey.fx:
            cons.append(x[j] == float(bl))
        elif bk == mosek.boundkey.up:
            cons.append(x[j] <= float(bu))
        elif bk == mosek.boundkey.lo:
            cons.append(x[j] >= float(bl))
        elif bk == mosek.boundkey.ra:
            cons += [x[j] >= float(bl), x[j] <= float(bu)]
    obj = 0
    for j, v in task.c.items():
        obj = obj + float(v) * x[j]
    for j, lst in task.barC.items():
        obj = obj + cp.sum(cp.multiply(np.asarray(task.bar_dense(lst, task.barvar_dims[j]), dtype=float), X[j]))
    mx = task.sense == mosek.objsense.maximize
    prob = cp.Problem(cp.Maximize(obj) if mx else cp.Minimize(obj), cons)
    try:
        prob.solve(solver=kw.get('solver', 'CLARABEL'))
    except Exception:
        prob.solve(solver='SCS', eps=1e-8)
    ok = prob.status in ('optimal', 'optimal_inaccurate')
    sol = {}
    if not ok:
        sol['xx'] = np.zeros(n)
        sol['barx'] = [_tril_vec(np.zeros((d, d))) for d in task.barvar_dims]
        sol['y'] = np.zeros(task.numcon)
        sol['bars'] = [_tril_vec(np.zeros((d, d))) for d in task.barvar_dims]
        sol['prosta'] = mosek.prosta.prim_infeas if 'infeasible' in prob.status else mosek.prosta.dual_infeas
        sol['solsta'] = mosek.solsta.unknown
        return sol
    sol['xx'] = np.array(x.value, dtype=float) if n else np.zeros(0)
    sol['barx'] = [_tril_vec(Xj.value) for Xj in X]
    y = np.zeros(task.numcon)
    sgn = 1.0 if mx else -1.0
    for i, (c_up, c_lo, c_eq) in enumerate(row_cons):
        if c_eq is not None:
            y[i] = sgn * float(c_eq.dual_value)
        else:
            if c_up is not None:
                y[i] += sgn * float(c_up.dual_value)
            if c_lo is not None:
                y[i] -= sgn * float(c_lo.dual_value)
    sol['y'] = y
    sol['bars'] = [_tril_vec(-sgn * np.asarray(c.dual_value)) for c in cons[:len(X)]]
    sol['prosta'] = mosek.prosta.prim_and_dual_feas
    sol['solsta'] = mosek.solsta.optimal
    return sol
