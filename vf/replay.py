"""Replay a counter-model on the real code: `python -m vf.replay <file.json>`.

Runs the harness of the recorded property in concrete mode (ConcEnv): real PEPit from /repo, real numpy, real cvxpy.
Exit 1 + 'REPRODUCED' if a claim with the recorded signature fails numerically; exit 0 otherwise."""
import json
import sys
import io
import contextlib
import traceback

from .env import ConcEnv, ReplayMismatch


def main(path):
    with open(path) as f:
        rec = json.load(f)
    mod = __import__(rec['module'], fromlist=['x'])
    if hasattr(mod, 'setup_concrete'):
        mod.setup_concrete()
    env = ConcEnv(rec['values'], rec['choices'], tol=rec.get('tol', 1e-6))
    buf = io.StringIO()
    try:
        with contextlib.redirect_stdout(buf):
            mod.prog(env, rec['case'])
    except ReplayMismatch as ex:
        # the recorded path ends where the violated claim was (later choices were never drawn): fine if it failed
        if rec['signature'] not in [f['signature'] for f in env.failed]:
            print("NOT-REPRODUCED (replay left the recorded path: %s)" % ex)
            return 0
    except Exception:
        print("NOT-REPRODUCED (exception in concrete run)\n" + traceback.format_exc())
        return 2
    sigs = [f['signature'] for f in env.failed]
    if rec['signature'] in sigs:
        f = [f for f in env.failed if f['signature'] == rec['signature']][0]
        print("REPRODUCED property=%s signature=%s" % (rec['property'], rec['signature']))
        print("  what: %s" % f['what'])
        print("  detail: %s" % json.dumps(f.get('detail', {}), default=str)[:1500])
        print("  inputs: %s" % json.dumps(rec['values'])[:1500])
        return 1
    print("NOT-REPRODUCED (claims evaluated: %d, failed with other signatures: %s)" % (env.claims, sigs[:5]))
    return 0


if __name__ == "__main__":
    sys.exit(main(sys.argv[1]))
