"""Replay a counter-model on the real code: `python -m vf.replay <file.json>`.

Runs the harness of the recorded property in concrete mode (ConcEnv): real PEPit from /repo, real numpy, real cvxpy.
Exit 1 + 'REPRODUCED' if a claim with the recorded signature fails numerically; exit 0 otherwise."""
import json
import sys
import io
import contextlib
import traceback

from .env import ConcEnv, ReplayMismatch


def _matcher(mod):
    return getattr(mod, 'signature_matches', lambda recorded, observed: recorded == observed)


def attempt(mod, rec, values):
    match = _matcher(mod)
    if 'realising a symbolic real' in str(rec.get('what', '')):
        # the symbolic run could not follow the code (a symbolic value was handed to float() / a numeric numpy array): the
        # candidate carries no claim of its own - the concrete run of the same case decides, and any claim it fails counts
        match = lambda recorded, observed: True
    env = ConcEnv(values, rec['choices'], tol=rec.get('tol', 1e-6))
    buf = io.StringIO()
    try:
        with contextlib.redirect_stdout(buf):
            mod.prog(env, rec['case'])
    except ReplayMismatch as ex:
        # the recorded path ends where the violated claim was (later choices were never drawn): fine if it failed
        if not any(match(rec['signature'], f['signature']) for f in env.failed):
            return None, "replay left the recorded path: %s" % ex
    except Exception:
        if not any(match(rec['signature'], f['signature']) for f in env.failed):
            return None, "exception in concrete run\n" + traceback.format_exc()
    hits = [f for f in env.failed if match(rec['signature'], f['signature'])]
    if hits:
        return hits[0], None
    return None, "claims evaluated: %d, failed with other signatures: %s" % (env.claims,
                                                                             [f['signature'] for f in env.failed][:5])


def main(path):
    with open(path) as f:
        rec = json.load(f)
    mod = __import__(rec['module'], fromlist=['x'])
    if hasattr(mod, 'setup_concrete'):
        mod.setup_concrete()
    # 1st attempt: the solver's counter-model.  Further attempts: the same structural choices with the harness's
    # default input values (a counterexample that is structural reproduces for generic parameter values; the
    # counter-model's own values may describe an SDP that the real numeric solver cannot solve).
    candidates = [("counter-model", rec['values'])]
    if hasattr(mod, 'default_values'):
        for i, dv in enumerate(mod.default_values(rec['case'])):
            v = dict(rec['values'])
            v.update(dv)
            candidates.append(("default-inputs-%d" % i, v))
    notes = []
    only = int(sys.argv[2]) if len(sys.argv) > 2 else None
    for idx, (name, values) in enumerate(candidates):
        if only is None and idx > 0:
            # every further attempt runs in a process of its own: a defect that lives in process-wide state (class-level
            # registries, shared default arguments) must not be masked - or caused - by the attempt before
            import subprocess
            pr = subprocess.run([sys.executable, "-W", "ignore", "-m", "vf.replay", path, str(idx)], capture_output=True,
                                text=True)
            if pr.returncode == 1:
                sys.stdout.write(pr.stdout)
                return 1
            notes.append((pr.stdout.strip().splitlines() or ["%s: no output" % name])[-1].strip())
            continue
        if only is not None and idx != only:
            continue
        hit, note = attempt(mod, rec, values)
        if hit is not None:
            print("REPRODUCED property=%s signature=%s (%s)" % (rec['property'], hit['signature'], name))
            print("  what: %s" % hit['what'])
            print("  detail: %s" % json.dumps(hit.get('detail', {}), default=str)[:1500])
            print("  inputs: %s" % json.dumps({k: v for k, v in values.items() if not k.startswith('x') or '.' not in k})[:1500])
            return 1
        notes.append("%s: %s" % (name, note))
    print("NOT-REPRODUCED\n  " + "\n  ".join(notes))
    return 0


if __name__ == "__main__":
    sys.exit(main(sys.argv[1]))
