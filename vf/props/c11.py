"""C11 - both back-ends solve the same SDP and report duals in one convention.

The never-executed MosekWrapper runs on a recording `mosek` stand-in with the semantics of the MOSEK manual.
(a) the SDP recorded through MOSEK equals, row for row (as multisets of affine forms with symbolic coefficients), the
    one recorded through the cvxpy stand-in for the same model, and both equal the declared model; every LMI is coupled
    to its own matrix variable; the objective sits on the objective leaf and the primal value is read from it;
(b) under MOSEK's KKT contract the exposed multipliers satisfy C01's identity in the same sign convention;
(c) after prepare_heuristic/heuristic both back-ends record: the previous rows, `objective >= wc - tol`, and
    `minimise <W, G>` with no leftover linear term;
(d) the row-index arithmetic `nb_cons + np.zeros(shape, dtype=np.intN)` is exact for every row count (bit-width query
    generated from the current source's AST)."""
import ast
import os

import numpy as np
import z3

from vf import runner, pipeline, sdp
from vf.solverstub import CvxStub, MosekStub
from vf.props import c01, c05


def setup_symbolic():
    pipeline.setup_symbolic()


def setup_concrete():
    pipeline.setup_concrete()


def default_values(case):
    return pipeline.default_values()


signature_matches = c01.signature_matches


def _solve(env, m, backend, tag, **kw):
    """pep.solve that turns an exception of the real code into a failed claim"""
    try:
        return m.pep.solve(wrapper=backend, verbose=0, **kw), None
    except AssertionError as ex:
        import traceback
        tb = traceback.extract_tb(ex.__traceback__)
        where = "%s:%s" % (os.path.basename(tb[-1].filename), tb[-1].name)
        sig = tag + ":raises-AssertionError:" + where
        if 'objective.eval()' in (tb[-1].line or ''):
            # PEPit's own consistency assert: the value the wrapper returned is not the objective leaf's value
            sig = tag.rsplit(":", 1)[0] + ":tau-position"
        env.check(False, "PEP.solve(wrapper=%s) raised AssertionError in %s (line: %s)" % (backend, where, tb[-1].line),
                  signature=sig)
        return None, 'assert'
    except Exception as ex:
        if type(ex).__name__ in ('ReplayMismatch',):
            raise
        import traceback
        tb = traceback.extract_tb(ex.__traceback__)
        where = "%s:%s" % (os.path.basename(tb[-1].filename), tb[-1].name)
        env.check(False, "PEP.solve(wrapper=%s) raised %s: %s (in %s)" % (backend, type(ex).__name__, str(ex)[:200], where),
                  signature=tag + ":raises-" + type(ex).__name__)
        return None, 'raise'


def prog_model(env, case):
    spec = dict(case['spec'])
    name = case['id']
    tag = "C11:" + name
    if env.sym:
        cstub = CvxStub(env).install()
        mstub = MosekStub(env).install()
    else:
        pipeline.enable_mosek_emulator()
    from PEPit import Expression, Point
    # ---- the model through cvxpy -------------------------------------------------------------------------
    spec['backend'] = 'cvxpy'
    m1 = pipeline.build(env, spec)
    tau1, err1 = _solve(env, m1, 'cvxpy', tag + ":cvxpy", return_primal_or_dual='primal')
    w1 = m1.pep.wrapper
    rec1 = sdp.rows_from_cvxpy(w1, w1.prob) if env.sym else c05.rows_from_real_cvxpy(w1)
    n_leaf_expr1 = Expression.counter
    # ---- the same model through MOSEK (fresh PEP, same symbolic inputs) -----------------------------------------
    spec['backend'] = 'mosek'
    m2 = pipeline.build(env, spec)
    tau2, err2 = _solve(env, m2, 'mosek', tag + ":mosek", return_primal_or_dual='primal')
    if err2:
        return "mosek path raised"
    w2 = m2.pep.wrapper
    env.check(type(w2).__name__ == 'MosekWrapper', "MOSEK back-end was not used", signature=tag + ":not-mosek")
    rec2 = sdp.rows_from_mosek(w2.task, Expression.counter)
    # (a) same SDP
    env.check(rec1['nG'] == rec2['nG'] and rec1['nF'] == rec2['nF'] and sorted(rec1['psd']) == sorted(rec2['psd']),
              "variables differ between back-ends: cvxpy %s / mosek %s" % ((rec1['nG'], rec1['nF'], rec1['psd']),
                                                                          (rec2['nG'], rec2['nF'], rec2['psd'])),
              signature=tag + ":variables")
    for r in rec1['rows']:
        if any(k[0] == 'M' for k in r['form']):
            r['sign_free'] = True
    missing, extra = sdp.match_rows(env, rec1['rows'], rec2['rows'])
    env.check(not missing and not extra, "rows differ between back-ends; only in cvxpy: %s; only in MOSEK: %s"
              % ([sdp.describe(r) for r in missing[:3]], [sdp.describe(r) for r in extra[:3]]),
              signature=tag + ":rows-differ", detail=dict(only_cvxpy=len(missing), only_mosek=len(extra)))
    c05.check_recorded(env, m2, rec2, 'mosek', tag + ":declared", spec)
    # primal value is read from the objective leaf
    if tau2 is not None:
        Fv = m2.pep.F_value
        env.check_eq(tau2, Fv[m2.pep.objective.counter], "primal value returned through MOSEK is not the objective leaf's "
                     "value (xx[-2] vs objective index %d of %d leaves)" % (m2.pep.objective.counter, Expression.counter),
                     signature=tag + ":tau-position")
    # (b) certificate in the same convention
    if env.sym:
        spec['return'] = 'primal'
        c01.check_certificate(env, m2, tau2, mstub, spec, kpool='kkt0', pid="C11")
    else:
        spec['return'] = 'primal'
        c01.concrete_check(env, m2, tau2, spec, pid="C11")
        if tau1 is not None and tau2 is not None:
            env.check(abs(float(tau1) - float(tau2)) <= 5e-3 * (1 + abs(float(tau1))),
                      "optimal values differ between back-ends: cvxpy %g, mosek %g" % (tau1, tau2),
                      signature=tag + ":values-differ")
    return "rows=%d" % len(rec2['rows'])


def prog_heuristic(env, case):
    """(c) what both back-ends record after prepare_heuristic / heuristic"""
    spec = dict(case['spec'])
    tag = "C11:" + case['id']
    from PEPit import Expression, Point
    recs = {}
    heur = spec.pop('heuristic', 'trace')
    from vf.props import c14
    c14._watch_events()
    for backend in ('cvxpy', 'mosek'):
        del c14._WEIGHTS[:]
        if env.sym:
            CvxStub(env, prefix=backend[0]).install()
            MosekStub(env, prefix=backend[0]).install()
        else:
            pipeline.enable_mosek_emulator()
        spec['backend'] = backend
        m = pipeline.build(env, spec)
        tol = env.real("tol", lo=0)
        tau, err = _solve(env, m, backend, tag + ":" + backend, return_primal_or_dual='primal',
                          dimension_reduction_heuristic=heur, tol_dimension_reduction=tol,
                          **({} if heur == 'trace' else dict(eig_regularization=env.real("reg", lo=0, lo_strict=True))))
        if err:
            return "raised"
        w = m.pep.wrapper
        if backend == 'mosek':
            rec = sdp.rows_from_mosek(w.task, Expression.counter)
        elif env.sym:
            rec = sdp.rows_from_cvxpy(w, w.prob)
        else:
            rec = c05.rows_from_real_cvxpy(w)
        recs[backend] = (m, rec)
        n = Point.counter
        # declared: original rows + (wc - tol) - objective <= 0
        exp, lmis = c05.declared(m)
        sense, of, oc = rec['objective']
        if heur == 'trace':
            ref = dict(kind='eq', form={('G', i, i): 1 for i in range(n)}, const=0)
        else:
            # logdet iterations: both back-ends must minimise <W, G> for the weight matrix the PEP passed last
            W = c14._WEIGHTS[-1]
            ref = dict(kind='eq', form={('G', i, j): (W[i, i] if i == j else W[i, j] + W[j, i])
                                        for i in range(n) for j in range(i, n)}, const=0)
        env.check(sense == 'min' and sdp.same_row(env, ref, dict(kind='eq', form=of, const=oc), prove=True),
                  "after the %s heuristic the objective recorded through %s is not 'minimise %s': %s %s"
                  % (heur, backend, 'trace(G)' if heur == 'trace' else '<last weight, G>', sense,
                     {str(k): str(v) for k, v in list(of.items())[:4]}), signature=tag + ":%s:objective" % backend)
        missing, extra = sdp.match_rows(env, exp, rec['rows'])
        env.check(not missing, "after the heuristic a declared constraint is no longer in the %s problem: %s"
                  % (backend, [sdp.describe(r) for r in missing[:2]]), signature=tag + ":%s:lost-rows" % backend)
        ok = len(extra) == 1 and extra[0]['kind'] == 'le' and set(extra[0]['form']) == {('F', m.pep.objective.counter)}
        env.check(ok, "after the heuristic the %s problem should contain exactly one new row `wc - tol - objective <= 0`, "
                  "got %s" % (backend, [sdp.describe(r) for r in extra[:3]]), signature=tag + ":%s:extra-row" % backend)
        if ok:
            r = extra[0]
            env.check_eq(r['form'][('F', m.pep.objective.counter)], -1, "heuristic row has the wrong coefficient",
                         signature=tag + ":%s:extra-row-coef" % backend)
            first_wc = first_primal_value(env, m, backend)
            if first_wc is not None:
                env.check_eq(r['const'], first_wc - tol, "heuristic row bound is not (first optimum - tol)",
                             signature=tag + ":%s:extra-row-bound" % backend)
            elif not env.sym:
                dual_value = float(c01.residue(m.pep).get('c', 0))      # = the first (original) problem's optimum
                env.check(abs(float(r['const']) - (dual_value - float(tol))) <= 2e-3 * (1 + abs(dual_value)),
                          "heuristic row bound %g is not (first optimum %g - tol %g)" % (float(r['const']), dual_value,
                                                                                        float(tol)),
                          signature=tag + ":%s:extra-row-bound" % backend)
    return "ok"


def first_primal_value(env, m, backend):
    if not env.sym:
        return None
    import cvxpy
    import mosek
    hook = cvxpy.SOLVER_HOOK[0] if backend == 'cvxpy' else mosek.OPTIMIZE_HOOK[0]
    sv = hook.solves[0]
    return sv.primal_value


# ---- (d) row-index arithmetic --------------------------------------------------------------------------------------

def find_index_dtypes():
    """locate `<expr> + np.zeros(<shape>, dtype=np.<T>)` in the current mosek_wrapper.py"""
    src = open(os.path.join(runner.REPO, "PEPit", "wrappers", "mosek_wrapper.py")).read()
    tree = ast.parse(src)
    found = []
    for node in ast.walk(tree):
        if isinstance(node, ast.BinOp) and isinstance(node.op, ast.Add):
            for side, other in ((node.right, node.left), (node.left, node.right)):
                if isinstance(side, ast.Call) and getattr(side.func, 'attr', None) in ('zeros', 'zeros_like', 'ones'):
                    dt = None
                    for kw in side.keywords:
                        if kw.arg == 'dtype':
                            dt = ast.unparse(kw.value)
                    found.append(dict(line=node.lineno, expr=ast.unparse(node), dtype=dt, other=ast.unparse(other)))
    return found


def prog_rowindex(env, case):
    """z3: is there a row count in [0, 2^31) that the index array's dtype cannot represent?  (numpy >= 2: adding a
    Python int that does not fit the array's integer dtype raises OverflowError; numpy 1 value-based casting upcasts)"""
    sites = find_index_dtypes()
    env.check(len(sites) >= 1, "could not locate the row-index expression in mosek_wrapper.py (harness needs updating)",
              signature="C11:rowindex:not-found")
    bits = {'np.int8': 8, 'np.int16': 16, 'np.int32': 32, 'np.int64': 64, 'int': 64, 'np.intp': 64, 'np.uint8': 8,
            None: 64}
    if env.sym:
        for s in sites:
            dt = s['dtype']
            if dt in ('float', 'np.float64', 'np.float32'):
                env.check(False, "row index built with a float dtype (%s)" % s['expr'], signature="C11:rowindex:float")
                continue
            b = bits.get(dt, 64)
            nb = z3.BitVec("nb_cons_line%d" % s['line'], 64)
            s_ = z3.Solver()
            s_.add(z3.ULE(nb, z3.BitVecVal(2 ** 31 - 1, 64)))
            hi = 2 ** (b - 1) - 1 if not (dt or '').startswith('np.uint') else 2 ** b - 1
            s_.add(z3.UGT(nb, z3.BitVecVal(hi, 64)))
            r = s_.check()
            env.claims += 1
            env.eng.stats['assert_queries'] += 1
            env.eng.stats[str(r)] += 1
            if r == z3.unsat:
                env.proved += 1
                continue
            v = s_.model()[nb].as_long()
            # smallest witness
            v = hi + 1
            env.names['nb_cons'] = None
            env.violations.append(__import__('vf.env', fromlist=['Violation']).Violation(
                "row index `%s` (line %d): dtype %s cannot hold row number %d -> OverflowError on numpy >= 2 when a model "
                "has more than %d solver rows" % (s['expr'], s['line'], dt, v, hi),
                "C11:rowindex:%s" % dt, {'nb_cons': float(v)}, [], dict(site=s)))
        return "sites=%d" % len(sites)
    # replay: a model with more rows than the witness
    pipeline.enable_mosek_emulator()
    from PEPit import PEP
    from PEPit.functions import ConvexFunction
    nb = int(env.values.get('nb_cons', 128))
    pep = PEP()
    f = pep.declare_function(ConvexFunction)
    xs = f.stationary_point()
    x = pep.set_initial_point()
    pep.set_initial_condition((x - xs) ** 2 <= 1)
    k = 0
    while (k + 1) * k + 2 <= nb + 1:
        k += 1
    for _ in range(k):
        x = x - 0.1 * f.gradient(x)
    pep.set_performance_metric(f(x) - f(xs))
    sigs = ["C11:rowindex:%s" % s['dtype'] for s in sites]
    try:
        pep.solve(wrapper='mosek', verbose=0)
    except OverflowError as ex:
        for sg in sigs:
            env.check(False, "OverflowError with %d rows: %s" % (len(pep._list_of_constraints_sent_to_wrapper), ex),
                      signature=sg)
    return "rows=%d" % len(pep._list_of_constraints_sent_to_wrapper)


def prog(env, case):
    if case['kind'] == 'model':
        return prog_model(env, case)
    if case['kind'] == 'heuristic':
        return prog_heuristic(env, case)
    return prog_rowindex(env, case)


def cases(tier):
    cs = [dict(id="rowindex", kind='rowindex')]
    base = dict(fclass='ssc', steps=['grad'], cons=[], lmis=[], metrics=1)

    def add(name, kind='model', **kw):
        s = dict(base)
        s.update(kw)
        cs.append(dict(id=name, kind=kind, spec=s, input_zero_tests='generic', output_branches='first'))

    add("gd")
    add("gd-cons", cons=['le', 'ge', 'eq'])
    add("gd-dup", cons=['le'], dup=True)        # the same Constraint object declared twice: one row per declaration
    add("gd-lmi", lmis=['sym2'])
    add("gd-two-lmis", lmis=['sym2', 'one'])
    add("lmi-objects-reversed", lmis=['sym2', 'one'], lmi_objects=True, lmi_reversed=True)
    add("lmi-objects-reversed-same-size", lmis=['sym2', 'nonsym2b'], lmi_objects=True, lmi_reversed=True)
    add("lmi-unadded", lmis=['sym2'], lmi_objects=True, lmi_unadded=True, lmi_unadded_first=True)
    add("qg-late-leaf", fclass='qg', stationary=False)
    add("quad-class-lmi", fclass='quad')
    add("quad-function-lmi", fclass='quad', function_lmi=True)      # function-level LMI sent AFTER the class LMI
    add("function-lmi-and-user-lmi", lmis=['one'], function_lmi=True, function_lmi_with_constraint=True)
    add("convex-prox", fclass='convex', steps=['prox'], metrics=2)
    add("heuristic-gd", kind='heuristic')
    add("heuristic-logdet2-gd", kind='heuristic', heuristic='logdet2')
    add("heuristic-lmi", kind='heuristic', lmis=['sym2'])
    add("heuristic-qg", kind='heuristic', fclass='qg', stationary=False)
    add("heuristic-negative-optimum", kind='heuristic', fclass='sc', stationary=False, negative=True)
    if tier == 'thorough':
        add("composite", second='convex', steps=['grad', 'prox'])
        add("three-lmis-reversed", lmis=['sym2', 'one', 'three'], lmi_objects=True, lmi_reversed=True)
        add("linop", fclass='linop', value_metric=False)
        add("rsi-late-leaf", fclass='rsi', stationary=False, value_metric=False)
        add("partition", partition=2)
    return cs


def main(tier, only=None):
    cs = cases(tier)
    if only:
        cs = [c for c in cs if only in c['id']]
    return runner.run_property(
        "C11", tier, "vf.props.c11", cs, opts=dict(mode='fork', max_paths=20000),
        assumptions=["MOSEK Optimizer API semantics and dual sign conventions as read from the MOSEK manual (MOSEK is not "
                     "installed: cannot be validated here; cross-checked indirectly against the validated cvxpy stand-in)",
                     "replays of MOSEK paths run the real MosekWrapper on the recording stand-in + a numeric emulator "
                     "(real cvxpy solves the recorded task)",
                     "solver = KKT contract stub; generic parameters (coefficient polynomials assumed non-zero)"],
        bounds=dict(models=len(cs), lmis="<=2 (3 thorough), all creation/addition orders of the listed models",
                    row_count="[0, 2^31) (bit-vector query)", outside="models beyond the listed ones; MOSEK's numerics"))
