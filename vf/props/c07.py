"""C07 - oracle bookkeeping is coherent for leaf and composite functions.

f1 (differentiable), f2 (not), F = w1 f1 + w2 f2 with SYMBOLIC weights (so zero and cancelling weights are forks of the
real prune_dict / division code), thorough: H = F + w3 f1, K = w4 F.  Every call history of bounded length over
{oracle, value, gradient, stationary_point} x functions x points runs on the real Function code; at the end of each path
z3 proves, over the weights: one value per point and function; one gradient per point for differentiable functions; every
sample of a composite is the weighted sum of samples recorded at that point for its terms; a declared stationary point
has zero gradient and is registered; returned objects are the recorded ones."""
import itertools

import z3

from vf import runner
from vf.engine import lift
from vf.denote import canon


def setup_symbolic():
    from vf import npshim
    npshim.install()


def default_values(case):
    return [dict(w1=1.0, w2=1.0, w3=1.0, w4=1.0), dict(w1=0.5, w2=-2.0, w3=-0.5, w4=2.0)]


def pform(p):
    return {k: v for k, v in p.decomposition_dict.items()}


def eform(e):
    return dict(canon(e))


def provably_zero(env, terms):
    if not terms:
        return True
    if env.sym:
        ts = [lift(t) for t in terms]
        if all(z3.is_rational_value(z3.simplify(t)) and z3.simplify(t).numerator_as_long() == 0 for t in ts):
            return True
        r, _ = env.eng.valid(z3.And(*[t == 0 for t in ts]))
        return r == 'unsat'
    return all(abs(float(t)) < 1e-9 for t in terms)


def same_map(env, m1, m2):
    keys = list(set(m1) | set(m2))
    return provably_zero(env, [m1.get(k, 0) - m2.get(k, 0) for k in keys])


def same_point_decomposition(env, a, b):
    return same_map(env, pform(a), pform(b))


def lin_comb(maps_weights):
    out = {}
    for m, w in maps_weights:
        for k, v in m.items():
            out[k] = out[k] + w * v if k in out else w * v
    return out


def prog(env, case):
    from PEPit import PEP, Point, Expression
    from PEPit.functions import SmoothConvexFunction, ConvexFunction
    pep = PEP()
    L = 1.0
    f1 = pep.declare_function(SmoothConvexFunction, L=L)
    f2 = pep.declare_function(ConvexFunction)
    w1, w2 = env.real("w1"), env.real("w2")
    F = w1 * f1 + w2 * f2
    fns = [('f1', f1), ('f2', f2), ('F', F)]
    weights = {'F': [(f1, w1), (f2, w2)]}
    if case.get('nested'):
        w3, w4 = env.real("w3"), env.real("w4")
        variant = case.get('nested_variant', 0)
        if variant == 0:
            H = F + w3 * f1
            K = w4 * F
            weights['H'] = [(f1, w1 + w3), (f2, w2)]
            weights['K'] = [(f1, w4 * w1), (f2, w4 * w2)]
        else:
            # the other operators of the function algebra: subtraction, negation, division by a scalar
            env.assume(env.neg(env.eq(w4, 0)))
            H = F - w3 * f1
            K = (-F) / w4
            weights['H'] = [(f1, w1 - w3), (f2, w2)]
            weights['K'] = [(f1, -w1 / w4), (f2, -w2 / w4)]
        fns += [('H', H), ('K', K)]
    x0, x1 = Point(), Point()
    pts = [('x0', x0), ('x1', x1)]
    if case.get('twin_only'):
        pts = [('x0', x0), ('x0twin', 1 * x0)]  # a non-leaf Point object with the same decomposition as the leaf x0
    elif case.get('twin'):
        pts.append(('x0twin', 1 * x0))        # another Point object with the same decomposition as x0
    ops = ['oracle', 'value'] + (['gradient'] if case.get('extended') else [])
    forced = list(case.get('forced', []))

    def ch(n, label):
        if forced:
            d = forced.pop(0)
            if d >= n:
                from vf.engine import Abort
                raise Abort()
            return d
        return env.choose(n, label)

    alphabet = [(op, fi, pi) for op in ops for fi in range(len(fns)) for pi in range(len(pts))] + \
               [('stationary', fi, None) for fi in range(len(fns))]
    if case.get('fixed'):
        alphabet += [('fixed', fi, None) for fi in range(len(fns))]
        alphabet += [('oracle_at_stationary', fi, None) for fi in range(len(fns))]
    trace = []
    returned = []       # (function, point, g or None, f or None)
    stationary_decl = []
    for step in range(case['length']):
        k = ch(len(alphabet) + 1, 'call')
        if k == len(alphabet):
            trace.append('stop')
            break
        op, fi, pi = alphabet[k]
        fname, fn = fns[fi]
        if op == 'stationary':
            xs = fn.stationary_point()
            stationary_decl.append((fname, fn, xs))
            trace.append("%s.stationary_point()" % fname)
            continue
        if op == 'oracle_at_stationary':
            # the function is queried again at its own declared stationary point (declared now if not yet)
            mine = [t for t in stationary_decl if t[1] is fn]
            if not mine:
                xs = fn.stationary_point()
                stationary_decl.append((fname, fn, xs))
                trace.append("%s.stationary_point()" % fname)
            else:
                xs = mine[-1][2]
            earlier = [t[1] for t in fn.list_of_points]
            g, v = fn.oracle(xs)
            returned.append((fname, fn, xs, g, v))
            trace.append("%s.oracle(its stationary point)" % fname)
            if fname in ('f1', 'f2') and not fn.reuse_gradient:
                env.check(g.get_is_leaf() and not any(g is b for b in earlier),
                          "[%s] a query of the non-differentiable %s at its declared stationary point returned an already "
                          "recorded (sub)gradient (the null one) instead of a fresh one: 0 is only one of the admissible "
                          "subgradients there" % (" ; ".join(trace), fname), signature="C07:subgradient-not-fresh:leaf")
            continue
        if op == 'fixed':
            xf, gf, vf_ = fn.fixed_point()
            returned.append((fname, fn, xf, gf, vf_))
            env.check(gf is xf or same_map(env, pform(gf), pform(xf)), "[%s] %s.fixed_point(): the recorded image is not the "
                      "point itself" % (" ; ".join(trace), fname), signature="C07:fixed-point:%s" % _kind(fname))
            trace.append("%s.fixed_point()" % fname)
            continue
        pname, x = pts[pi]
        trace.append("%s.%s(%s)" % (fname, op, pname))
        earlier = [t[1] for t in fn.list_of_points]
        if op == 'oracle':
            g, v = fn.oracle(x)
            returned.append((fname, fn, x, g, v))
        elif op == 'value':
            v = fn.value(x)
            returned.append((fname, fn, x, None, v))
        else:
            g = fn.gradient(x)
            returned.append((fname, fn, x, g, None))
        if op in ('oracle', 'gradient') and fname in ('f1', 'f2') and not fn.reuse_gradient:
            # a non-differentiable function "may return a new subgradient each time": the model must leave room for one,
            # i.e. every query records a FRESH free subgradient (also at a point declared stationary, where 0 is only one
            # of the admissible subgradients)
            env.check(g.get_is_leaf() and not any(g is b for b in earlier),
                      "[%s] a repeated query of the non-differentiable %s returned an already recorded (sub)gradient instead "
                      "of a fresh one" % (" ; ".join(trace), fname), signature="C07:subgradient-not-fresh:leaf")
    tr = " ; ".join(trace)
    # ---- (A) one value per point, one gradient per point if differentiable -------------------------------------
    for fname, fn in fns:
        trip = list(fn.list_of_points)
        for a, b in itertools.combinations(trip, 2):
            if not same_point_decomposition(env, a[0], b[0]):
                continue
            env.check(same_map(env, eform(a[2]), eform(b[2])),
                      "[%s] %s has two different values recorded at the same point" % (tr, fname),
                      signature="C07:two-values:%s" % _kind(fname))
            if fn.reuse_gradient:
                env.check(same_map(env, pform(a[1]), pform(b[1])),
                          "[%s] differentiable %s has two different gradients recorded at the same point" % (tr, fname),
                          signature="C07:two-gradients:%s" % _kind(fname))
    # ---- (D) returned objects are recorded ones, and agree across calls ------------------------------------------
    for fname, fn, x, g, v in returned:
        cands = [t for t in fn.list_of_points if same_point_decomposition(env, t[0], x)]
        env.check(len(cands) > 0, "[%s] %s returned a sample for a point it did not record" % (tr, fname),
                  signature="C07:unrecorded:%s" % _kind(fname))
        if v is not None and cands:
            env.check(any(same_map(env, eform(v), eform(t[2])) for t in cands),
                      "[%s] value returned by %s is not the recorded value at that point" % (tr, fname),
                      signature="C07:returned-value:%s" % _kind(fname))
        if g is not None and cands:
            env.check(any(same_map(env, pform(g), pform(t[1])) for t in cands),
                      "[%s] gradient returned by %s is not a recorded gradient at that point" % (tr, fname),
                      signature="C07:returned-gradient:%s" % _kind(fname))
    # ---- (B) composite samples are the weighted sums of samples of the terms ---------------------------------
    for fname, fn in fns:
        if fname not in weights:
            continue
        for (x, g, v) in fn.list_of_points:
            per_term = []
            ok = True
            for (leaf, w) in weights[fname]:
                if provably_zero(env, [w]):
                    continue
                cands = [t for t in leaf.list_of_points if same_point_decomposition(env, t[0], x)]
                if not cands:
                    ok = False
                    env.check(False, "[%s] %s has a sample at a point where its term (weight possibly non-zero) has none"
                              % (tr, fname), signature="C07:term-not-evaluated:%s" % _kind(fname))
                    break
                per_term.append((w, cands))
            if not ok:
                continue
            vref = lin_comb([(eform(c[0][2]), w) for (w, c) in per_term])
            shape = ("%s%s%s" % (":all-weights-zero" if not per_term else "",
                                 ":stationary-sample" if len(g.decomposition_dict) == 0 else "",
                                 ":fixed-point-sample" if (g is x and len(g.decomposition_dict) > 0) else ""))
            env.check(same_map(env, eform(v), vref), "[%s] value of %s at a point is not the weighted sum of its terms' "
                      "values there" % (tr, fname), signature="C07:sum-value:%s%s" % (_kind(fname), shape))
            found = False
            for sel in itertools.product(*[c for (_, c) in per_term]):
                gref = lin_comb([(pform(t[1]), w) for (w, _), t in zip(per_term, sel)])
                if same_map(env, pform(g), gref):
                    found = True
                    break
            env.check(found, "[%s] gradient of %s at a point is not the weighted sum of recorded (sub)gradients of its "
                      "terms there" % (tr, fname), signature="C07:sum-gradient:%s%s" % (_kind(fname), shape))
    # ---- (C) stationary points -----------------------------------------------------------------------------------------
    for fname, fn, xs in stationary_decl:
        trips = [t for t in fn.list_of_points if t[0] is xs]
        # (a non-differentiable function queried again at its stationary point records further, non-zero subgradients:
        #  the declaration itself must have recorded the null one)
        env.check(len(trips) >= 1 and any(provably_zero(env, list(pform(t[1]).values())) for t in trips),
                  "[%s] declared stationary point of %s has a non-zero recorded gradient" % (tr, fname),
                  signature="C07:stationary-gradient:%s" % _kind(fname))
        env.check(any(t[0] is xs for t in fn.list_of_stationary_points),
                  "[%s] declared stationary point of %s is not in its list_of_stationary_points" % (tr, fname),
                  signature="C07:stationary-list:%s" % _kind(fname))
    return tr


def _kind(fname):
    return 'leaf' if fname in ('f1', 'f2') else 'composite'


def cases(tier):
    cs = []
    n_alpha = 2 * 3 * 2 + 3
    if tier == 'quick':
        for first in range(n_alpha):
            cs.append(dict(id="len3-first%02d" % first, length=3, forced=[first]))
        for first in range(n_alpha):
            cs.append(dict(id="twin3-first%02d" % first, length=3, forced=[first], twin_only=True))
        n_nest = 2 * 5 * 2 + 5
        for first in range(n_nest):
            cs.append(dict(id="sub2-first%02d" % first, length=2, forced=[first], nested=True, nested_variant=1))
        for first in range(n_alpha + 6):
            cs.append(dict(id="fix2-first%02d" % first, length=2, forced=[first], fixed=True))
    else:
        for first in range(n_alpha + 6):
            cs.append(dict(id="fix3-first%02d" % first, length=3, forced=[first], fixed=True))
        for first in range(n_alpha):
            for second in range(n_alpha + 1):
                cs.append(dict(id="len4-%02d-%02d" % (first, second), length=4, forced=[first, second]))
        # extended alphabet (nested sums, gradient(), a twin Point object): all histories of length 2, and the histories of
        # length 3 that start with one of the pairs below (a full length-3 sweep is ~50^3 histories with symbolic-weight
        # forks on each: measured at more than two CPU-hours per first operation, outside the tier's budget)
        n_ext = 3 * 5 * 3 + 5
        for first in range(n_ext):
            cs.append(dict(id="ext2-first%02d" % first, length=2, forced=[first], nested=True, twin=True, extended=True))
        for first in range(0, n_ext, 7):
            for second in range(1, n_ext + 1, 9):
                cs.append(dict(id="ext3-%02d-%02d" % (first, second), length=3, forced=[first, second], nested=True, twin=True,
                               extended=True))
        n_nest = 2 * 5 * 2 + 5
        for first in range(n_nest):
            for second in range(0, n_nest + 1, 5):
                cs.append(dict(id="sub3-%02d-%02d" % (first, second), length=3, forced=[first, second], nested=True,
                               nested_variant=1))
    return cs


def main(tier, only=None):
    cs = cases(tier)
    if only:
        cs = [c for c in cs if only in c['id']]
    return runner.run_property(
        "C07", tier, "vf.props.c07", cs, opts=dict(mode='reexec', max_paths=3000000, assert_timeout_ms=20000),
        assumptions=["two leaf functions (one differentiable, one not); sums with symbolic weights",
                     "'same point' = same decomposition over leaf points (as the library defines it)"],
        bounds=dict(history_length=3 if tier == 'quick' else "4 (base alphabet); extended alphabet (nested sums, gradient(), a twin "
                                                             "Point object): 2, and 3 for a fixed grid of first-two-operation "
                                                             "pairs",
                    leaf_functions=2, outside="more than 2 leaf functions, longer histories, primitive steps in histories"))
