"""C05 - the problem handed to the solver is exactly the declared model.

(a) expression_to_matrices / expression_to_sparse_matrices on expressions with symbolic coefficients (repeated,
    mirrored, diagonal keys, constants, zero coefficients): the numeric data denotes [[e]] for every symmetric G, F.
(b) whole models through PEP.solve with both back-ends: the multiset of rows recorded by the stand-in solver API equals
    the multiset the model declares (metrics, user constraints, LMIs, class constraints of every leaf function,
    function-level and partition constraints), each once per declaration, right sense; objective = the objective leaf,
    maximised; PEPit's two tracking lists agree."""
import numpy as np

from vf import runner, pipeline, sdp
from vf.denote import canon, registered_functions
from vf.solverstub import CvxStub, MosekStub


def setup_symbolic():
    pipeline.setup_symbolic()


def setup_concrete():
    pipeline.setup_concrete()


def default_values(case):
    return pipeline.default_values()


# ---------------------------------------------------------------------------------------------------------------
# (a) translation functions
# ---------------------------------------------------------------------------------------------------------------

def prog_e2m(env, case):
    from PEPit import PEP, Point, Expression
    from PEPit.tools.expressions_to_matrices import expression_to_matrices, expression_to_sparse_matrices
    pep = PEP()
    pts = [Point() for _ in range(3)]
    exs = [Expression() for _ in range(2)]
    p0, p1, p2 = pts
    atoms = [('p0p1', lambda: p0 * p1), ('p1p0', lambda: p1 * p0), ('p0p0', lambda: p0 ** 2), ('p1p2', lambda: p1 * p2),
             ('p0p1b', lambda: p0 * p1), ('f0', lambda: exs[0]), ('f1', lambda: exs[1]), ('const', None),
             ('p2p2', lambda: p2 ** 2), ('p2p1', lambda: p2 * p1)]
    atoms = atoms[:case.get('natoms', 8)]
    forced = list(case.get('forced', []))
    e = None
    used = []
    for ai, (name, mk) in enumerate(atoms):
        present = forced.pop(0) if forced else env.choose(2, 'atom-%s' % name)
        if not present:
            continue
        c = env.real("a%d" % ai)
        used.append(name)
        if mk is None:
            e = (e + c) if e is not None else (Expression(is_leaf=False, decomposition_dict={}) + c)
        else:
            t = c * mk()
            e = t if e is None else e + t
    if e is None:
        e = exs[0]          # a leaf expression on its own
        used.append('leaf')
    # reference: canonical coefficient map, independent of the translation code
    ref = canon(e)
    nP, nE = len(pts), len(exs)
    Gs = {(i, j): env.real("G%d%d" % (min(i, j), max(i, j))) for i in range(nP) for j in range(nP)}
    Fs = [env.real("F%d" % k) for k in range(nE)]
    refval = ref.get('c', 0)
    for k, v in ref.items():
        if k == 'c':
            continue
        refval = refval + (v * Gs[(k[1], k[2])] if k[0] == 'G' else v * Fs[k[1]])
    # dense
    Gw, Fw, cons = expression_to_matrices(e)
    env.check(Gw.shape == (nP, nP) and Fw.shape == (nE,), "dense translation: wrong shapes", signature="C05:dense-shape")
    val = cons
    for i in range(nP):
        for j in range(nP):
            val = val + Gw[i, j] * Gs[(i, j)]
    for k in range(nE):
        val = val + Fw[k] * Fs[k]
    env.check_eq(val, refval, "dense translation does not denote the expression (atoms %s)" % used,
                 signature="C05:dense-denotation")
    for i in range(nP):
        for j in range(i):
            env.check_eq(Gw[i, j], Gw[j, i], "dense Gweights not symmetric", signature="C05:dense-symmetric")
    # sparse
    Gi, Gj, Gv, Fi, Fv, cv = expression_to_sparse_matrices(e)
    Gi, Gj, Fi = [int(x) for x in Gi], [int(x) for x in Gj], [int(x) for x in Fi]
    env.check(len(Gi) == len(Gj) == len(Gv) and len(Fi) == len(Fv), "sparse translation: ragged arrays",
              signature="C05:sparse-shape")
    env.check(all(0 <= j <= i < nP for i, j in zip(Gi, Gj)), "sparse translation: entry outside the lower triangle "
              "(MOSEK rejects it)", signature="C05:sparse-lower")
    env.check(len(set(zip(Gi, Gj))) == len(Gi), "sparse translation: duplicate (i,j) entry (MOSEK rejects it): %s"
              % sorted(zip(Gi, Gj)), signature="C05:sparse-duplicate")
    env.check(len(set(Fi)) == len(Fi) and all(0 <= k < nE for k in Fi), "sparse translation: bad F indices",
              signature="C05:sparse-findex")
    sval = cv
    for i, j, v in zip(Gi, Gj, list(Gv)):
        v = v.item() if isinstance(v, np.generic) else v
        # MOSEK semantics: lower-triangular triplet of a symmetric matrix, full Frobenius product
        sval = sval + (v * Gs[(i, j)] if i == j else 2 * v * Gs[(i, j)])
    for k, v in zip(Fi, list(Fv)):
        v = v.item() if isinstance(v, np.generic) else v
        sval = sval + v * Fs[k]
    env.check_eq(sval, refval, "sparse translation does not denote the expression (atoms %s)" % used,
                 signature="C05:sparse-denotation")
    return used


# ---------------------------------------------------------------------------------------------------------------
# (b) whole models
# ---------------------------------------------------------------------------------------------------------------

def rows_from_real_cvxpy(wrapper):
    """concrete replay: affine data of the real cvxpy Problem built by CvxpyWrapper, by evaluation at basis points"""
    G, F = wrapper.G, wrapper.F
    cons = wrapper._list_of_solver_constraints
    lmi_vars = []
    for c in cons:
        if type(c).__name__ == 'PSD':
            v = c.variables()[0]
            if v.id != G.id:
                lmi_vars.append(v)
    allv = [G, F] + lmi_vars

    def zero():
        for v in allv:
            v.value = np.zeros(v.shape)

    def basis():
        n = G.shape[0]
        for i in range(n):
            for j in range(i, n):
                zero()
                E = np.zeros((n, n))
                E[i, j] = E[j, i] = 1
                G.value = E
                yield ('G', i, j)
        for k in range(F.shape[0]):
            zero()
            e = np.zeros(F.shape)
            e[k] = 1
            F.value = e
            yield ('F', k)
        for l, v in enumerate(lmi_vars):
            n = v.shape[0]
            for i in range(n):
                for j in range(i, n):
                    zero()
                    E = np.zeros((n, n))
                    E[i, j] = E[j, i] = 1
                    v.value = E
                    yield ('M', l, i, j)

    exprs = []
    for c in cons:
        nm = type(c).__name__
        if nm == 'PSD':
            continue
        kind = {'Inequality': 'le', 'Equality': 'eq', 'Zero': 'eq', 'NonPos': 'le'}.get(nm, nm)
        exprs.append((kind, c.args[0] - c.args[1] if len(c.args) == 2 else c.args[0]))
    obj = wrapper.prob.objective
    exprs.append(('objective', obj.args[0]))
    zero()
    consts = [float(np.asarray(e.value).reshape(-1)[0]) for _, e in exprs]
    forms = [dict() for _ in exprs]
    for key in basis():
        for idx, (_, e) in enumerate(exprs):
            v = float(np.asarray(e.value).reshape(-1)[0]) - consts[idx]
            if abs(v) > 1e-14:
                forms[idx][key] = v
    rows = [dict(kind=k, form=f, const=c) for (k, _), f, c in zip(exprs[:-1], forms[:-1], consts[:-1])]
    sense = 'max' if type(obj).__name__ == 'Maximize' else 'min'
    psd = [c.variables()[0].shape[0] for c in cons if type(c).__name__ == 'PSD']
    return dict(rows=rows, psd=psd, objective=(sense, forms[-1], consts[-1]), nG=G.shape[0], nF=F.shape[0])


def declared(m):
    """what the model declares, from the harness's own log + the class / partition constraint lists"""
    from PEPit import Function
    from PEPit.block_partition import BlockPartition
    pep = m.pep
    constraints = list(m.constraints)
    lmis = list(m.lmis)
    leaf = [f for f in registered_functions() if f.get_is_leaf()]
    for f in leaf:
        constraints += list(f.list_of_class_constraints)
        lmis += list(f.list_of_class_psd)
    for f, c in m.fconstraints:
        constraints.append(c)
    for f, psd in m.flmis:
        lmis.append(psd)
    for part in BlockPartition.list_of_partitions:
        constraints += list(part.list_of_constraints)
    return sdp.expected_rows(pep, m.metrics, constraints, lmis), lmis


def check_recorded(env, m, rec, backend, tag, spec):
    """compare the recorded SDP with the declared one"""
    from PEPit import Point, Expression
    pep = m.pep
    exp, lmis = declared(m)
    env.check(rec['nG'] == Point.counter and rec['nF'] == Expression.counter,
              "main variables have the wrong sizes (%s, %s) vs (%d, %d)" % (rec['nG'], rec['nF'], Point.counter,
                                                                           Expression.counter),
              signature=tag + ":sizes")
    env.check(sorted(rec['psd']) == sorted([Point.counter] + [p.shape[0] for p in lmis]),
              "PSD variables %s do not match the Gram matrix + declared LMIs %s" % (rec['psd'],
                                                                                  [p.shape[0] for p in lmis]),
              signature=tag + ":psd-vars")
    missing, extra = sdp.match_rows(env, exp, rec['rows'])
    env.check(not missing, "declared constraint(s) not sent to the solver as declared: %s"
              % [(r.get('src'), sdp.describe(r)) for r in missing[:3]],
              signature=tag + ":missing-" + (missing[0].get('src', '?').split('[')[0].rstrip('0123456789') if missing else ''),
              detail=dict(n_missing=len(missing)))
    env.check(not extra, "solver received constraint(s) nobody declared: %s" % [sdp.describe(r) for r in extra[:3]],
              signature=tag + ":extra", detail=dict(n_extra=len(extra)))
    sense, of, oc = rec['objective']
    ref = dict(kind='eq', form={('F', pep.objective.counter): 1}, const=0)
    env.check(sense == 'max' and sdp.same_row(env, ref, dict(kind='eq', form=of, const=oc), prove=True),
              "objective handed to the solver is not 'maximise the objective leaf': %s %s" % (sense, of),
              signature=tag + ":objective")
    env.check(len(pep._list_of_constraints_sent_to_wrapper) == len([c for c in pep.wrapper._list_of_constraints_sent_to_solver
                                                                    if type(c).__name__ == 'Constraint'])
              and all(a is b for a, b in zip(pep._list_of_constraints_sent_to_wrapper,
                                             [c for c in pep.wrapper._list_of_constraints_sent_to_solver
                                              if type(c).__name__ == 'Constraint'])),
              "PEP's and the wrapper's lists of sent constraints differ", signature=tag + ":tracking")
    if backend == 'mosek':
        env.check(rec.get('free_vars') == list(range(rec['nF'])) and rec.get('numvar') == rec['nF'] + 1,
                  "MOSEK scalar variables: free %s of %s" % (rec.get('free_vars'), rec.get('numvar')),
                  signature=tag + ":mosek-vars")


def _declarations(pep, Function):
    """the lists a user fills: PEP-level constraints / LMIs / metrics / points, every function's own constraints / LMIs"""
    d = {'pep.list_of_constraints': list(pep.list_of_constraints), 'pep.list_of_psd': list(pep.list_of_psd),
         'pep.list_of_performance_metrics': list(pep.list_of_performance_metrics),
         'pep.list_of_functions': list(pep.list_of_functions), 'pep.list_of_points': list(pep.list_of_points)}
    for i, f in enumerate(registered_functions()):
        d['function%d.list_of_constraints' % i] = list(f.list_of_constraints)
        d['function%d.list_of_psd' % i] = list(f.list_of_psd)
    return d


class _StopAfterRecording(Exception):
    pass


def prog_model(env, case):
    spec = case['spec']
    backend = spec.get('backend', 'cvxpy')
    tag = "C05:%s:%s" % (backend, case['id'].rsplit('-', 1)[0])
    if env.sym:
        cstub = CvxStub(env).install()
        mstub = MosekStub(env).install()
    elif backend == 'mosek':
        pipeline.enable_mosek_emulator()
    m = pipeline.build(pipeline.ConcreteParamsEnv(env) if spec.get('concrete_params') else env, spec)
    from PEPit import Function as _Function
    declared_before = _declarations(m.pep, _Function)
    if spec.get('record_only') and env.sym:
        # large models: only the problem handed over matters here - stop at the solver call
        import cvxpy
        import mosek

        def stop(*a, **k):
            raise _StopAfterRecording()
        cvxpy.SOLVER_HOOK[0] = stop
        mosek.OPTIMIZE_HOOK[0] = stop
        try:
            m.pep.solve(wrapper=backend, verbose=0)
        except _StopAfterRecording:
            pass
    else:
        tau, err = pipeline.safe_solve(env, m.pep, tag, wrapper=backend, verbose=spec.get('verbose', 0))
        if err:
            return err
    w = m.pep.wrapper
    if backend == 'mosek':
        from PEPit import Expression
        rec = sdp.rows_from_mosek(w.task, Expression.counter)
    elif env.sym:
        rec = sdp.rows_from_cvxpy(w, w.prob)
    else:
        rec = rows_from_real_cvxpy(w)
    check_recorded(env, m, rec, backend, tag, spec)
    # every LMI declared through a reused work array still holds the entries it was declared with
    from PEPit import Expression as _Expression
    for li, (pm, entries) in enumerate(getattr(m, 'lmi_entries', [])):
        same = True
        for i in range(len(entries)):
            for j in range(len(entries)):
                want = entries[i][j]
                got = pm[i, j]
                if isinstance(want, _Expression):
                    same = same and sdp.same_row(env, dict(kind='eq', form=dict(canon(want)), const=0),
                                                 dict(kind='eq', form=dict(canon(got)), const=0), prove=True)
                else:
                    same = same and sdp.same_row(env, dict(kind='eq', form={'c': want}, const=0),
                                                 dict(kind='eq', form=dict(canon(got)), const=0), prove=True)
        env.check(same, "LMI %d no longer holds the entries it was declared with (its matrix is the caller's work array)" % li,
                  signature=tag + ":lmi-entries-changed")
    # sending the model must not edit it: the user's declaration lists hold the same objects as before the solve
    after = _declarations(m.pep, _Function)
    changed = [k for k in declared_before if k not in after or len(after[k]) != len(declared_before[k])
               or any(a is not b for a, b in zip(after[k], declared_before[k]))]
    env.check(not changed, "solve() changed the user's declaration lists: %s"
              % [(k, len(declared_before[k]), len(after.get(k, []))) for k in changed[:3]], signature=tag + ":declarations-edited")
    return "rows=%d" % len(rec['rows'])


def prog(env, case):
    if case['kind'] == 'e2m':
        return prog_e2m(env, case)
    return prog_model(env, case)


def cases(tier):
    cs = []
    nat = 8 if tier == 'quick' else 10
    for a in range(2):
        for b in range(2):
            for c in range(2):
                cs.append(dict(id="e2m-%d%d%d" % (a, b, c), kind='e2m', natoms=nat, forced=[a, b, c], mode='reexec'))
    base = dict(fclass='ssc', steps=['grad'], cons=[], lmis=[], metrics=1)

    def add(name, **kw):
        s = dict(base)
        s.update(kw)
        for be in ('cvxpy', 'mosek'):
            s2 = dict(s)
            s2['backend'] = be
            cs.append(dict(id="%s-%s" % (name, be), kind='model', spec=s2, input_zero_tests=kw.get('izt', 'generic'),
                           output_branches='first'))

    add("gd-2metrics", metrics=2)
    add("gd-cons", cons=['le', 'ge', 'eq', 'rle', 'ee'])
    add("gd-cons-zeroforks", cons=['le', 'eq'], cons_zero_forks=True, izt='fork', fclass='convex')
    add("gd-dup", cons=['le'], dup=True)
    add("gd-lmi", lmis=['sym2', 'one'])
    add("gd-lmi-nonsym", lmis=['nonsym2', 'nonsym2b'])
    add("quad", fclass='quad')
    add("composite-inexact", second='convex', steps=['inexact', 'prox'], unused=True)
    add("composite-sub-div", second='convex', steps=['inexact', 'prox'], composite_ops='sub-div')
    add("composite-inexact-temporary", second='convex', steps=['inexact', 'prox'], temporary_composite=True)
    add("qg-late-leaf", fclass='qg', stationary=False)
    add("function-lmi", function_lmi=True)
    add("lmi-work-array", lmis=['sym2', 'nonsym2b'], lmi_buffer=True, lmi_metric=False)
    add("function-lmi-and-constraint", function_lmi=True, function_lmi_with_constraint=True, lmis=['one'])
    add("partition", partition=2)
    add("two-partitions", partition=2, second_partition=3)
    add("partition-constructor", partition=2, partition_direct=True)
    add("large-gram", extra_points=70, record_only=True, concrete_params=True)
    if tier == 'thorough':
        add("gd2-cons-lmi", steps=['grad', 'grad'], cons=['le', 'eq'], lmis=['three'])
        add("lmi-objects-reversed", lmis=['sym2', 'one'], lmi_objects=True, lmi_reversed=True, lmi_unadded=True)
        add("linop", fclass='linop', value_metric=False)
        add("symlin", fclass='symlin', value_metric=False)
        add("partition3", partition=3)
        add("gd-cons-zeroforks-ssc", cons=['le', 'eq'], cons_zero_forks=True, izt='fork')
    return cs


def main(tier, only=None):
    cs = cases(tier)
    if only:
        cs = [c for c in cs if only in c['id']]
    e2m = [c for c in cs if c['kind'] == 'e2m']
    mod = [c for c in cs if c['kind'] != 'e2m']
    common = dict(
        assumptions=["whole-model part: class and partition constraint lists are taken from PEPit after the solve (their "
                     "content is C04's / C15's subject); the SDP solver API is observed through the stand-in packages; "
                     "replays of cvxpy paths read the REAL cvxpy Problem built by CvxpyWrapper (affine data by evaluation "
                     "at basis points)",
                     "MOSEK API semantics as read from the MOSEK manual (not installed here)"],
        bounds=dict(expression_atoms=8 if tier == 'quick' else 10, leaf_points=3, leaf_expressions=2,
                    models=len(mod), outside="larger expressions / models; what real cvxpy does after Problem(...)"))
    # stand-ins vs the real libraries (own process: needs real cvxpy)
    import json
    import os
    import subprocess
    val = dict(ok=False, error="not run")
    try:
        pr = subprocess.run([runner.PY, "-W", "ignore", "-m", "vf.validate"], cwd=runner.VERIF, capture_output=True, text=True,
                            timeout=900, env=dict(os.environ, PYTHONPATH=runner.VERIF + os.pathsep + runner.REPO))
        val = json.loads(pr.stdout.strip().splitlines()[-1])
    except Exception as ex:
        val = dict(ok=False, error=str(ex)[:300])
    common['extra_coverage'] = dict(standin_validation=val)
    pre = []
    if e2m:
        r = runner.collect("vf.props.c05", e2m, opts=dict(mode='reexec', max_paths=2000000))
        pre = r
    rc = runner.run_property("C05", tier, "vf.props.c05", mod, opts=dict(mode='fork', max_paths=20000),
                             pre_results=pre, **common)
    if not val.get('ok') and not only:
        print("HARNESS-ERROR: stand-in validation against real cvxpy failed: %s" % json.dumps(val)[:1500])
        return max(rc, runner.EXIT_INCONCLUSIVE) if rc != runner.EXIT_VIOLATION else rc
    return rc
