"""C12 - a model's result does not depend on what happened earlier in the process.

Each case runs in a freshly forked process that has imported PEPit but never built a problem.  Model B (symbolic
parameters) is built and handed to the solver stand-in -> record R1; then a history of other models A1..Ak drawn from a
library (every class with class-level side effects: LinearOperator, partitions, LMIs and PSDMatrix objects, composite
functions; endings: solved / solver found nothing / exception in the middle of construction / abandoned unsolved;
verbosity 0/1), then B again -> record R2.  R1 and R2 must be identical: same unknowns, same row SEQUENCE with provably
equal coefficients, same objective, same constraint / function names, same MOSEK matrix-variable indices and row numbers."""
import z3

from vf import runner, pipeline, sdp
from vf.denote import registered_functions
from vf.engine import lift
from vf.solverstub import CvxStub, MosekStub


def setup_symbolic():
    pipeline.setup_symbolic()


def setup_concrete():
    pipeline.setup_concrete()
    record_real_cvxpy_kwargs()


def record_real_cvxpy_kwargs():
    """replays: remember the keyword arguments of the last real cvxpy Problem.solve call on the problem object"""
    import cvxpy
    if getattr(cvxpy.Problem, '_vf_rec', False) or getattr(cvxpy, 'STANDIN', False):
        return
    orig = cvxpy.Problem.solve

    def solve(self, *a, **kw):
        self._vf_solve_kwargs = dict(kw)
        return orig(self, *a, **kw)
    cvxpy.Problem.solve = solve
    cvxpy.Problem._vf_rec = True


def solver_call_options(w, backend):
    """options of the last solver call made through the cvxpy back-end (sorted, printable)"""
    if backend == 'mosek' or getattr(w, 'prob', None) is None:
        return None
    kw = getattr(w.prob, 'solve_kwargs', None)
    if kw is None:
        kw = getattr(w.prob, '_vf_solve_kwargs', None)
    if kw is None:
        return None
    return sorted((k, repr(v)) for k, v in kw.items())


def default_values(case):
    # the fragments of the history draw their own (prefixed) parameters: they get the defaults too, so that their solves
    # behave as in the symbolic run (a fragment whose SDP is unsolvable numerically would end before the step that matters)
    out = []
    for dv in pipeline.default_values():
        d = dict(dv)
        for k in range(3):
            d.update({"A%d_%s" % (k, n): v for n, v in dv.items()})
        out.append(d)
    return out


def _s(v):
    lv = lift(v)
    if lv is None:
        return repr(v)
    return z3.simplify(lv).sexpr()


def record(env, m, backend):
    """canonical dump of what the solver API received for model m"""
    from PEPit import Expression, Point, Function
    pep = m.pep
    w = pep.wrapper
    if backend == 'mosek':
        rec = sdp.rows_from_mosek(w.task, Expression.counter)
        struct = dict(barvar_dims=list(w.task.barvar_dims), numcon=w.task.numcon, numvar=w.task.numvar,
                      bar_couplings=sorted((i, j) for (i, j) in w.task.barA.keys()),
                      tracked_rows=list(w._constraint_index_in_mosek))
    else:
        if env.sym:
            rec = sdp.rows_from_cvxpy(w, w.prob)
        else:
            from vf.props.c05 import rows_from_real_cvxpy
            rec = rows_from_real_cvxpy(w)
        struct = dict(n_solver_constraints=len(w._list_of_solver_constraints),
                      solver_call_options=solver_call_options(w, backend))
    rows = []
    for r in rec['rows']:
        rows.append((r['kind'], r['form'], r['const']))
    names = dict(constraints=[c.get_name() for c in pep._list_of_constraints_sent_to_wrapper],
                 n_sent=len(pep._list_of_constraints_sent_to_wrapper), n_psd=len(pep._list_of_psd_sent_to_wrapper),
                 functions=[(f.get_name(), f.counter) for f in registered_functions()],
                 n_leaf_points=Point.counter, n_leaf_expr=Expression.counter,
                 objective_index=pep.objective.counter, pep_counter=pep.counter)
    return dict(rows=rows, psd=list(rec['psd']), objective=rec['objective'], names=names, struct=struct,
                nG=rec['nG'], nF=rec['nF'])


def compare(env, r1, r2, tag):
    env.check(r1['names'] == r2['names'], "names / counters differ: fresh %s vs after history %s"
              % (_diff(r1['names'], r2['names']), ""), signature=tag + ":names")
    env.check(r1['struct'] == r2['struct'], "solver-side structure differs: %s" % _diff(r1['struct'], r2['struct']),
              signature=tag + ":structure")
    env.check((r1['nG'], r1['nF'], r1['psd']) == (r2['nG'], r2['nF'], r2['psd']),
              "unknowns differ: fresh (G %s, F %s, PSD %s) vs after history (G %s, F %s, PSD %s)"
              % (r1['nG'], r1['nF'], r1['psd'], r2['nG'], r2['nF'], r2['psd']), signature=tag + ":unknowns")
    env.check(len(r1['rows']) == len(r2['rows']), "number of rows differs: fresh %d vs after history %d"
              % (len(r1['rows']), len(r2['rows'])), signature=tag + ":row-count")
    if len(r1['rows']) == len(r2['rows']):
        for i, (a, b) in enumerate(zip(r1['rows'], r2['rows'])):
            ok = sdp.same_row(env, dict(kind=a[0], form=a[1], const=a[2]), dict(kind=b[0], form=b[1], const=b[2]),
                              prove=True)
            if not ok:
                env.check(False, "row %d differs: fresh %s vs after history %s"
                          % (i, sdp.describe(dict(kind=a[0], form=a[1], const=a[2])),
                             sdp.describe(dict(kind=b[0], form=b[1], const=b[2]))), signature=tag + ":row-content")
                break
        else:
            env.claims += 1
            env.proved += 1
    o1, o2 = r1['objective'], r2['objective']
    env.check(o1[0] == o2[0] and sdp.same_row(env, dict(kind='eq', form=o1[1], const=o1[2]),
                                             dict(kind='eq', form=o2[1], const=o2[2]), prove=True),
              "objective differs", signature=tag + ":objective")


def _diff(a, b):
    return {k: (a.get(k), b.get(k)) for k in a if a.get(k) != b.get(k)}


# library of history fragments: spec, ending
FRAGMENTS = [
    ('gd', dict(fclass='ssc', steps=['grad'])),
    ('lmi', dict(fclass='ssc', steps=['grad'], lmis=['sym2', 'one'], lmi_unadded=True)),
    ('linop', dict(fclass='linop', steps=['grad'], value_metric=False)),
    ('quad', dict(fclass='quad', steps=['grad'])),
    ('partition', dict(fclass='ssc', steps=['grad', 'grad'], partition=2)),
    ('composite', dict(fclass='convex', second='sc', steps=['grad', 'prox'])),
    ('qg', dict(fclass='qg', steps=['grad'], stationary=False)),
    ('null-accumulate', dict(fclass='ssc', steps=['grad', 'grad'], null_accumulate=True)),
]
ENDINGS = ['solved', 'solved-verbose', 'failed', 'exception', 'abandoned', 'solved-with-options', 'solve-raised']


_HELD = []      # earlier models the "user" still references (released in the middle of B's second construction)


def run_fragment(env, name, spec, ending, backend, idx):
    """build (and maybe solve) another model; its parameters are symbolic too (prefixed)"""
    if env.sym:
        import cvxpy
        import mosek
    sub = _PrefixEnv(env, "A%d_" % idx)
    try:
        m = pipeline.build(sub, spec)
        _HELD.append(m)
        if ending == 'exception':
            from PEPit import Point
            m.pep.set_initial_condition(Point() ** 2 <= 1)
            Point() + 1          # a user error in the middle of building a model (raises AssertionError)
        if ending == 'abandoned':
            return
        if env.sym:
            for hook in (cvxpy.SOLVER_HOOK[0], mosek.OPTIMIZE_HOOK[0]):
                hook.statuses = ('unbounded',) if ending == 'failed' else ('optimal',)
                hook.prefix = "A%d." % idx
        elif ending == 'failed':
            from PEPit import Expression
            m.pep.set_performance_metric(Expression())      # a free leaf: really unbounded
        if ending == 'solve-raised':
            # the user's solve call fails with the documented ValueError (a typo in an option) and the user moves on
            try:
                m.pep.solve(wrapper=backend, verbose=0, dimension_reduction_heuristic="tracee")
            except ValueError:
                pass
        elif ending == 'solved-with-options':
            # solver options of an earlier model (accuracy, iteration limit, solver log) belong to that call only
            m.pep.solve(wrapper=backend, verbose=2, **(dict(solver='SCS', eps=1e-3, max_iters=50000)
                                                      if backend == 'cvxpy' else {}))
        else:
            m.pep.solve(wrapper=backend, verbose=1 if ending == 'solved-verbose' else 0)
    except AssertionError:
        if ending != 'exception':
            raise
    finally:
        if env.sym:
            for hook in (cvxpy.SOLVER_HOOK[0], mosek.OPTIMIZE_HOOK[0]):
                hook.statuses = ('optimal',)
                hook.prefix = ""


class _PrefixEnv:
    """the history's models use their own (prefixed) symbolic inputs"""

    def __init__(self, env, prefix):
        self._env = env
        self._p = prefix
        self.sym = env.sym

    def real(self, name, **kw):
        return self._env.real(self._p + name, **kw)

    def __getattr__(self, n):
        return getattr(self._env, n)


def prog(env, case):
    backend = case['backend']
    bspec = dict(case['bspec'])
    bspec['backend'] = backend
    tag = "C12:%s:%s" % (backend, case['bname'])
    if env.sym:
        CvxStub(env).install()
        MosekStub(env).install()
    elif backend == 'mosek':
        pipeline.enable_mosek_emulator()
    # fresh process: B first
    del _HELD[:]
    m1 = pipeline.build(env, bspec)
    t1, e1 = pipeline.safe_solve(env, m1.pep, tag + ":fresh", wrapper=backend, verbose=0)
    if e1:
        return e1
    r1 = record(env, m1, backend)
    # history
    trace = []
    forced = list(case.get('forced', []))

    def ch(n, label):
        if forced:
            v = forced.pop(0)
            if v >= n:
                from vf.engine import Abort
                raise Abort()
            return v
        return env.choose(n, label)

    for k in range(case['k']):
        fi = ch(len(FRAGMENTS), 'fragment')
        allowed = case.get('endings') or list(range(len(ENDINGS)))
        ei = allowed[ch(len(allowed), 'ending')]
        name, spec = FRAGMENTS[fi]
        trace.append("%s/%s" % (name, ENDINGS[ei]))
        run_fragment(env, name, spec, ENDINGS[ei], backend, k)
    # the exported module-level zeros are still zeros after the history
    from PEPit import null_expression, null_point
    env.check(len(null_expression.decomposition_dict) == 0 and len(null_point.decomposition_dict) == 0,
              "after the history the shared module-level zero objects are no longer zero: null_expression has %d term(s), "
              "null_point %d" % (len(null_expression.decomposition_dict), len(null_point.decomposition_dict)),
              signature=tag + ":null-objects")
    # B again.  With release='mid' the user's last references to all earlier problems (B#1 and the fragments) are dropped
    # while B#2 is half built, and the garbage collector runs there - a finalizer of an old problem must not disturb it.
    bspec2 = dict(bspec)
    if case.get('release') == 'mid':
        _HELD.append(m1)
        m1 = None

        def release():
            import gc
            del _HELD[:]
            gc.collect()
        bspec2['mid_build'] = release
    else:
        del _HELD[:]
    m2 = pipeline.build(env, bspec2)
    t2, e2 = pipeline.safe_solve(env, m2.pep, tag + ":after[%s]" % ",".join(t.split('/')[0] for t in trace[:1]),
                                 wrapper=backend, verbose=case.get('verbose2', 0))
    if e2:
        return e2
    r2 = record(env, m2, backend)
    compare(env, r1, r2, tag)
    # (symbolic run: identical input => the solver, a function of its input, returns the same result set; the two
    #  stub calls use differently named output symbols, so the values themselves are compared in replays only)
    if not env.sym:
        env.check(t1 is not None and t2 is not None and abs(float(t1) - float(t2)) <= 1e-5 * (1 + abs(float(t1))),
                  "value returned for B differs after the history: %s vs %s" % (t1, t2), signature=tag + ":value")
    return " -> ".join(trace)


BMODELS = [
    ('gd-cons', dict(fclass='ssc', steps=['grad'], cons=['le', 'eq'])),
    ('lmi', dict(fclass='ssc', steps=['grad'], lmis=['sym2'])),
    ('quad', dict(fclass='quad', steps=['grad'])),
    ('linop', dict(fclass='linop', steps=['grad'], value_metric=False)),
    ('partition', dict(fclass='ssc', steps=['grad'], partition=2)),
    ('composite', dict(fclass='convex', second='sc', steps=['grad', 'prox'])),
    ('three-functions', dict(fclass='ssc', second='convex', steps=['grad', 'prox'], unused=True)),
    ('null-accumulate', dict(fclass='ssc', steps=['grad'], null_accumulate=True, lmis=['nonsym-const'], lmi_metric=False)),
]


def cases(tier):
    cs = []
    k = 1
    bm = BMODELS
    if tier == 'thorough':
        # histories of length 2: every ordered pair of fragments, both endings among {solved, exception mid-construction,
        # solved with solver options}, for two (model B, back-end) combinations (the full 8 x 7 x 8 x 7 sweep for all 16
        # combinations was measured at several hours)
        short = [ENDINGS.index(e) for e in ('solved', 'exception', 'solved-with-options')]
        for bname, be in (('partition', 'cvxpy'), ('lmi', 'mosek')):
            bspec = dict(BMODELS)[bname]
            for fi in range(len(FRAGMENTS)):
                cs.append(dict(id="%s-%s-A%d-len2" % (bname, be, fi), bname=bname, bspec=bspec, backend=be, k=2, forced=[fi],
                               endings=short, input_zero_tests='generic', output_branches='first', verbose2=fi % 2))
    for bname, bspec in bm:
        for be in ('cvxpy', 'mosek'):
            for fi in range(len(FRAGMENTS)):
                if tier == 'quick' and ((be == 'mosek' and bname in ('composite', 'gd-cons', 'quad', 'three-functions'))
                                        or (be == 'cvxpy' and bname in ('linop', 'composite'))):
                    continue
                if tier == 'quick' and bname == 'null-accumulate' and (be == 'mosek' or fi not in (0, 1, len(FRAGMENTS) - 1)):
                    continue
                if tier == 'quick' and fi == len(FRAGMENTS) - 1 and bname not in ('null-accumulate', 'gd-cons', 'lmi'):
                    continue
                cs.append(dict(id="%s-%s-A%d" % (bname, be, fi), bname=bname, bspec=bspec, backend=be, k=k, forced=[fi],
                               input_zero_tests='generic', output_branches='first', verbose2=fi % 2))
    for bname, bspec in bm:
        for be in ('cvxpy', 'mosek'):
            if tier == 'quick' and (bname, be) not in (('partition', 'cvxpy'), ('lmi', 'cvxpy'), ('gd-cons', 'cvxpy'),
                                                       ('partition', 'mosek')):
                continue
            cs.append(dict(id="%s-%s-A0-release-mid" % (bname, be), bname=bname, bspec=bspec, backend=be, k=k, forced=[0],
                           input_zero_tests='generic', output_branches='first', verbose2=0, release='mid'))
    return cs


def main(tier, only=None):
    cs = cases(tier)
    if only:
        cs = [c for c in cs if only in c['id']]
    return runner.run_property(
        "C12", tier, "vf.props.c12", cs, opts=dict(mode='fork', max_paths=20000, maxtasksperchild=1),
        assumptions=["'fresh interpreter' = a freshly forked process that imported PEPit and never built a problem (one per "
                     "case); the history always starts with B itself",
                     "the solver's share is small here: path feasibility and equality of coefficient terms; the "
                     "discriminating comparison is structural (stated in DESIGN.md)"],
        bounds=dict(history_length=1 if tier == 'quick' else "1 (all models, back-ends, fragments, endings) and 2 (2 model / back-end "
                                                             "combinations, all fragment pairs, 3 endings)", fragments=len(FRAGMENTS), endings=len(ENDINGS),
                    models_B=len(BMODELS), outside="longer histories; fragments outside the library"))
