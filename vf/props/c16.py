"""C16 - no number without a solution.

* the solver stub forks on its status (optimal / infeasible / unbounded / *_inaccurate variants), both back-ends: a
  non-optimal status must make PEP.solve return None and leave every accessor raising ValueError;
* every accessor (eval / eval_dual) of every kind of object (leaf / derived point, leaf / derived / product expression,
  constraint, LMI) before any solve, after a failed solve, and on objects of a new PEP after an old one was solved,
  must raise exactly ValueError;
* option strings are symbolic (z3 String theory, no length bound): any value of return_primal_or_dual outside
  {'dual','primal'} and any non-empty dimension_reduction_heuristic that is neither 'trace' nor 'logdet<int>' must be
  rejected with an exception."""
import z3

from vf import runner, pipeline
from vf import engine as E
from vf.solverstub import CvxStub, MosekStub


def setup_symbolic():
    pipeline.setup_symbolic()


def setup_concrete():
    pipeline.setup_concrete()


def default_values(case):
    vals = pipeline.default_values()
    one_dim = dict(vals[0])
    one_dim.update(dict(mu=0.1, L=1.0, gamma0=1.0))     # step 1/L: the worst-case example is one-dimensional
    return vals + [one_dim]


class SymStr(str):
    """str subclass carrying a z3 String term; the operations PEPit applies to its option strings become z3 string
    constraints decided (forked) by the engine"""

    def __new__(cls, term, env=None):
        o = str.__new__(cls, "<symbolic string>")
        o.t = term
        o.env = env
        return o

    def __eq__(self, other):
        if isinstance(other, SymStr):
            return E.SymBool(self.t == other.t)
        if isinstance(other, str):
            return E.SymBool(self.t == z3.StringVal(other))
        return False

    def __ne__(self, other):
        r = self.__eq__(other)
        return ~r if isinstance(r, E.SymBool) else True

    __hash__ = object.__hash__

    def __bool__(self):
        return bool(E.SymBool(z3.Length(self.t) > 0))

    def __len__(self):
        raise TypeError("len() of a symbolic string")

    def startswith(self, prefix, *a):
        return E.SymBool(z3.PrefixOf(z3.StringVal(prefix), self.t))

    def lower(self):
        raise TypeError("lower() of a symbolic string")

    def __getitem__(self, idx):
        if isinstance(idx, slice) and idx.stop is None and idx.step is None and isinstance(idx.start, int) \
                and idx.start >= 0:
            return SymStr(z3.SubString(self.t, idx.start, z3.Length(self.t)), self.env)
        raise TypeError("unsupported indexing of a symbolic string")

    def __int__(self):
        # contract of int(str): raises ValueError, or returns an integer.  Fork on both; on the integer side the
        # iteration count is drawn from {0, 1, 2} and the suffix is pinned to its decimal rendering.
        eng = E.ENGINE
        k = eng.choose(4, 'int(str)')
        if k == 0:
            eng.assume(z3.StrToInt(self.t) < 0)        # not a plain non-negative decimal literal
            raise ValueError("invalid literal for int() with base 10: <symbolic>")
        n = k - 1
        eng.assume(self.t == z3.StringVal(str(n)))
        return n

    def __format__(self, spec):
        return "<symbolic string>"

    def __repr__(self):
        return "SymStr(%s)" % self.t


def sym_string(env, name):
    if env.sym:
        s = SymStr(z3.String(name), env)
        env.strings = getattr(env, 'strings', {})
        env.strings[name] = s
        return s
    return env.values.get("str:" + name, "")


KINDS = ['leafP', 'derivedP', 'leafE', 'derivedE', 'prodE', 'consLeaf', 'consDerived', 'consProd', 'lmi', 'lmiLeaf',
         'classCons']


MIXED_KINDS = ['mixedP', 'mixedPrev', 'mixedE', 'mixedErev', 'mixedProd', 'mixedProdRev', 'mixedGrad', 'mixedCons',
               'mixedConsRev', 'mixedLmi', 'mixedLmiLate', 'valuedP', 'valuedPnew', 'valuedE', 'valuedCons']


def make_objects(env, pep):
    """a small model and one object of each kind; returns dict kind -> (object, [accessors])"""
    from PEPit import Point, Expression
    from PEPit.psd_matrix import PSDMatrix
    from PEPit.functions import SmoothStronglyConvexFunction
    mu = env.real("mu", lo=0)
    L = env.real("L", lo=0, lo_strict=True)
    env.assume(env.lt(mu, L))
    gamma = env.real("gamma0")
    f = pep.declare_function(SmoothStronglyConvexFunction, mu=mu, L=L)
    xs = f.stationary_point()
    fs = f(xs)
    x0 = pep.set_initial_point()
    g0, f0 = f.oracle(x0)
    x1 = x0 - gamma * g0
    t = Expression()
    c_leaf = (t <= 1)
    c_der = (f0 - fs <= 2)
    c_prod = ((x0 - xs) ** 2 <= 1)
    lmi = PSDMatrix([[(x1 - xs) ** 2, t], [t, 1]])
    lmi_leaf = PSDMatrix([[t]])
    objs = {
        'leafP': (x0, ['eval']), 'derivedP': (x1, ['eval']), 'leafE': (f0, ['eval']), 'derivedE': (f0 - fs + 1, ['eval']),
        'prodE': (x0 * g0, ['eval']), 'consLeaf': (c_leaf, ['eval', 'eval_dual']),
        'consDerived': (c_der, ['eval', 'eval_dual']), 'consProd': (c_prod, ['eval', 'eval_dual']),
        'lmi': (lmi, ['eval', 'eval_dual']), 'lmiLeaf': (lmi_leaf, ['eval', 'eval_dual']),
    }
    model = dict(f=f, xs=xs, fs=fs, x0=x0, x1=x1, f0=f0, t=t, c_prod=c_prod, c_leaf=c_leaf, lmi=lmi, f1=None)
    return objs, model


def complete(pep, model, unbounded=False):
    """turn the objects into a solvable (or unbounded) problem"""
    f = model['f']
    pep.set_initial_condition(model['c_prod'])
    if not unbounded:
        pep.set_performance_metric(f(model['x1']) - model['fs'])
    else:
        pep.set_performance_metric(model['t'])          # t is a free leaf: unbounded above
    return pep


def expect_value_error(env, obj, acc, tag):
    try:
        v = getattr(obj, acc)()
    except ValueError:
        env.claims += 1
        if env.sym:
            env.proved += 1
        return True
    except Exception as ex:
        if isinstance(ex, (E.Abort,)):
            raise
        env.check(False, "%s.%s() without a solved model raised %s instead of ValueError: %s"
                  % (type(obj).__name__, acc, type(ex).__name__, str(ex)[:120]),
                  signature=tag + ":" + type(ex).__name__)
        return False
    env.check(False, "%s.%s() without a solved model returned %r instead of raising ValueError"
              % (type(obj).__name__, acc, v), signature=tag + ":returned")
    return False


def prog_access(env, case):
    from PEPit import PEP
    moment = case['moment']
    backend = case.get('backend', 'cvxpy')
    kind = case['objkind']
    tag = "C16:%s:%s" % (moment, kind)
    stub = None
    if env.sym:
        CvxStub(env, statuses=case.get('statuses', ('optimal',))).install()
        MosekStub(env, statuses=case.get('statuses', ('optimal',))).install()
    elif backend == 'mosek':
        pipeline.enable_mosek_emulator()
    pep = PEP()
    objs, model = make_objects(env, pep)
    if moment == 'before':
        pass
    elif moment == 'after-failed':
        complete(pep, model, unbounded=True)
        if env.sym:
            import cvxpy
            import mosek
            for hook in (cvxpy.SOLVER_HOOK[0], mosek.OPTIMIZE_HOOK[0]):
                hook.statuses = tuple(case['statuses'])
        r = pep.solve(wrapper=backend, verbose=0)
        env.check(r is None, "solve returned %r although the solver reported no finite optimum (%s back-end)"
                  % (r, backend), signature="C16:solve-returns-number:%s" % backend)
        if r is not None:
            return "returned a number"
    elif moment == 'new-pep':
        complete(pep, model)
        r = pep.solve(wrapper=backend, verbose=0)
        pep2 = PEP()
        objs, model = make_objects(env, pep2)
    elif moment in ('extended-after-solve', 'extended-then-failed'):
        # a successful solve, then the model is extended by new leaves (one more oracle call, a new point, a new variable):
        # objects that mix leaves valued by that solve with the new, unvalued ones have no value - whatever the order of the
        # terms - and keep raising ValueError, also after a re-solve that fails
        from PEPit import Point, Expression
        from PEPit.psd_matrix import PSDMatrix
        complete(pep, model)
        r = pep.solve(wrapper=backend, verbose=0)
        f, x0, x1, f0, fs = model['f'], model['x0'], model['x1'], model['f0'], model['fs']
        g1_old, _ = f.oracle(x1)                # evaluated by the model already: valued
        g1, f1 = f.oracle(x1 - g1_old)          # a further iterate: new, unvalued leaves
        x2 = Point()
        t2 = Expression()
        objs = {
            'mixedP': (x0 + x2, ['eval']), 'mixedPrev': (x2 + x0, ['eval']),
            'mixedE': (f0 - f1, ['eval']), 'mixedErev': (f1 - f0, ['eval']),
            'mixedProd': ((x0 - x2) ** 2, ['eval']), 'mixedProdRev': ((x2 - x0) ** 2, ['eval']),
            'mixedGrad': (x0 * g1, ['eval']),
            'mixedCons': ((f0 >= f1), ['eval', 'eval_dual']), 'mixedConsRev': ((f1 <= f0 + t2), ['eval', 'eval_dual']),
            'mixedLmi': (PSDMatrix([[f0 - fs, f0 - f1], [f0 - f1, 1.]]), ['eval', 'eval_dual']),
            'mixedLmiLate': (PSDMatrix([[1., f0 - fs], [f0 - fs, t2]]), ['eval', 'eval_dual']),
            # objects made only of leaves the solve DID value keep their value when the model grows
            'valuedP': (x1, ['eval']), 'valuedPnew': (x0 - 2 * g1_old, ['eval']),
            'valuedE': ((x1 - model['xs']) ** 2, ['eval']), 'valuedCons': (model['c_prod'], ['eval']),
        }
        if moment == 'extended-then-failed':
            pep.set_performance_metric(t2)        # a free leaf in the objective: the re-solve is unbounded
            if env.sym:
                import cvxpy
                import mosek
                for hook in (cvxpy.SOLVER_HOOK[0], mosek.OPTIMIZE_HOOK[0]):
                    hook.statuses = ('unbounded',)
            r2 = pep.solve(wrapper=backend, verbose=0)
            if r2 is not None:
                return "second solve returned a number"
    if kind == 'classCons':
        f = model['f']
        f.set_class_constraints()
        obj, accs = f.list_of_class_constraints[0], ['eval', 'eval_dual']
    else:
        obj, accs = objs[kind]
    if kind.startswith('valued'):
        for acc in accs:
            try:
                getattr(obj, acc)()
                env.claims += 1
                if env.sym:
                    env.proved += 1
            except Exception as ex:
                if isinstance(ex, (E.Abort,)):
                    raise
                env.check(False, "%s.%s() raised %s although every leaf the object is made of was valued by the solve (the "
                          "model was only extended by new leaves afterwards): %s"
                          % (type(obj).__name__, acc, type(ex).__name__, str(ex)[:120]),
                          signature=tag + ":" + acc + ":raises-" + type(ex).__name__)
        return "%s %s" % (moment, kind)
    for acc in accs:
        expect_value_error(env, obj, acc, tag + ":" + acc)
    if kind == 'classCons':
        f = model['f']
        if len(f.tables_of_constraints) > 0:
            expect_value_error(env, f, 'get_class_constraints_duals', tag + ":get_class_constraints_duals")
    return "%s %s" % (moment, kind)


def prog_status(env, case):
    """solver status forks (symbolic run) / really unbounded and infeasible models (replay)"""
    from PEPit import PEP
    backend = case['backend']
    if env.sym:
        CvxStub(env, statuses=case['statuses']).install()
        MosekStub(env, statuses=case['statuses']).install()
    elif backend == 'mosek':
        pipeline.enable_mosek_emulator()
    pep = PEP()
    objs, model = make_objects(env, pep)
    complete(pep, model, unbounded=(not env.sym))
    exc = None
    try:
        r = pep.solve(wrapper=backend, verbose=case.get('verbose', 0))
    except Exception as ex:
        if isinstance(ex, E.Abort) or type(ex).__name__ == 'ReplayMismatch':
            raise
        exc = ex
        r = None
    import cvxpy
    if env.sym:
        import mosek
        hook = cvxpy.SOLVER_HOOK[0] if backend == 'cvxpy' else mosek.OPTIMIZE_HOOK[0]
        status = hook.solves[0].status if hook.solves else 'not-called'
    else:
        status = 'unbounded'
    if exc is not None:
        env.check(False, "solve raised %s: %s (solver status %s, %s back-end) instead of returning a value / None"
                  % (type(exc).__name__, str(exc)[:150], status, backend), signature="C16:solve-raises:%s" % backend)
        return "raised"
    if status.startswith('optimal'):
        env.check(r is not None, "solve returned None for an optimal status", signature="C16:none-on-optimal:%s" % backend)
        return "optimal"
    env.check(r is None, "solve returned %r although the solver status is %s (%s back-end)" % (r, status, backend),
              signature="C16:solve-returns-number:%s" % backend)
    if r is None:
        for kind, (obj, accs) in objs.items():
            for acc in accs:
                expect_value_error(env, obj, acc, "C16:after-%s:%s:%s" % ('failed', kind, acc))
        # the per-function accessor of the tables of multipliers: no solution => no numbers
        f = model['f']
        if len(f.tables_of_constraints) > 0:
            expect_value_error(env, f, 'get_class_constraints_duals', "C16:after-failed:function:get_class_constraints_duals")
    return status


def prog_options(env, case):
    from PEPit import PEP
    if env.sym:
        CvxStub(env).install()
        MosekStub(env).install()
    pep = PEP()
    objs, model = make_objects(env, pep)
    complete(pep, model)
    which = case['option']
    s = sym_string(env, "opt")
    documented = None
    try:
        if which == 'return_primal_or_dual':
            r = pep.solve(verbose=0, return_primal_or_dual=s)
        else:
            r = pep.solve(verbose=0, dimension_reduction_heuristic=s)
    except Exception as ex:
        if isinstance(ex, E.Abort):
            raise
        return "raised %s" % type(ex).__name__
    # did not raise: the value must be a documented one on this path
    if env.sym:
        t = s.t
        if which == 'return_primal_or_dual':
            ok = z3.Or(t == z3.StringVal("dual"), t == z3.StringVal("primal"))
        else:
            ok = z3.Or(z3.Length(t) == 0, t == z3.StringVal("trace"),
                       z3.And(z3.PrefixOf(z3.StringVal("logdet"), t),
                              z3.StrToInt(z3.SubString(t, 6, z3.Length(t))) >= 0))
        r_, m = env.eng.valid(ok)
        env.claims += 1
        if r_ == 'unsat':
            env.proved += 1
        elif r_ == 'unknown':
            env.inconclusive.append("option-string query")
        else:
            val = m.eval(t, model_completion=True).as_string()
            values = {n: E.model_value(m, v) for n, v in env.names.items()}
            values["str:opt"] = val
            v = __import__('vf.env', fromlist=['Violation']).Violation(
                "solve accepted the undocumented value %r for %s" % (val, which), "C16:option-accepted:" + which,
                values, [d for (k, _, d) in env.eng.decisions if k == 'c'])
            env.violations.append(v)
    else:
        ok = (s in ('dual', 'primal')) if which == 'return_primal_or_dual' else (
            s in ('', 'trace') or (s.startswith('logdet') and s[6:].isdigit()))
        env.check(ok, "solve accepted the undocumented value %r for %s" % (s, which),
                  signature="C16:option-accepted:" + which)
    return "accepted"


INVALID_RETURN = ['', ' ', 'd', 'du', 'al', 'dua', 'prim', 'rimal', 'dualprimal', 'primaldual', 'dual ', ' dual', 'Dual', 'DUAL',
                  'Primal', 'dual\n', 'both', 'none', 'primal,dual', 'dual|primal', 'p', 'l']
INVALID_DIMRED = ['t', 'tr', 'trac', 'race', 'trace ', ' trace', 'Trace', 'TRACE', 'tracelogdet', 'logdet', 'logdetx', 'logdet1.5',
                  'logdet 1x', 'log', 'det1', 'LOGDET1', 'Logdet1', 'logdet--1', 'logdet1e', 'nuclear', 'rank', ' ']


def prog_options_concrete(env, case):
    """finite list of concrete invalid option strings (prefixes, suffixes, concatenations, case and whitespace variants of
    the documented values): complements the symbolic-string run, which cannot see operations a *concrete* str applies to
    the option (e.g. `option in "literal"` is decided by C code on the argument's buffer)"""
    from PEPit import PEP
    if env.sym:
        CvxStub(env).install()
        MosekStub(env).install()
    which = case['option']
    values = INVALID_RETURN if which == 'return_primal_or_dual' else INVALID_DIMRED
    values = case.get('only_values', values)
    n_ok = 0
    cenv = _ConcreteParams(env, one_dim=case.get('one_dim', False))
    for v in values:
        pep = PEP()
        objs, model = make_objects(cenv, pep)      # concrete class parameters: the option string is the subject here
        complete(pep, model)
        try:
            if which == 'return_primal_or_dual':
                r = pep.solve(verbose=0, return_primal_or_dual=v)
            else:
                r = pep.solve(verbose=0, dimension_reduction_heuristic=v)
        except Exception as ex:
            if isinstance(ex, E.Abort) or type(ex).__name__ == 'ReplayMismatch':
                raise
            n_ok += 1
            env.claims += 1
            if env.sym:
                env.proved += 1
            continue
        env.check(False, "solve accepted the undocumented value %r for %s and returned %r" % (v, which, r),
                  signature="C16:option-accepted-concrete:" + which)
    return "%d/%d rejected" % (n_ok, len(values))


class _ConcreteParams:
    def __init__(self, env, one_dim=False):
        self._env = env
        self.sym = env.sym
        self.one_dim = one_dim

    def real(self, name, **kw):
        return dict(mu=0.1, L=1.0, gamma0=1.0 if self.one_dim else 0.5).get(name, 1.0)

    def assume(self, *a, **kw):
        pass

    def __getattr__(self, n):
        return getattr(self._env, n)


def prog_wrapper_name(env, case):
    """the `wrapper` option (concrete values): unknown names fall back to cvxpy (documented); an installed package that is
    not a wrapper must be rejected"""
    from PEPit import PEP
    if env.sym:
        CvxStub(env).install()
        MosekStub(env).install()
    pep = PEP()
    objs, model = make_objects(env, pep)
    complete(pep, model)
    name = case['name']
    try:
        r = pep.solve(wrapper=name, verbose=0)
    except Exception as ex:
        if isinstance(ex, E.Abort):
            raise
        return "raised"
    env.check(case['fallback_documented'] and pep.wrapper_name == 'cvxpy',
              "solve accepted wrapper=%r (used %s)" % (name, pep.wrapper_name), signature="C16:wrapper-accepted:" + name)
    return "fallback"


def prog(env, case):
    return {'access': prog_access, 'status': prog_status, 'options': prog_options, 'wrapper': prog_wrapper_name,
            'options-concrete': prog_options_concrete}[
        case['kind']](env, case)


BAD = ('infeasible', 'unbounded', 'infeasible_inaccurate', 'unbounded_inaccurate')


def cases(tier):
    cs = []
    common = dict(input_zero_tests='generic', output_branches='first')
    for kind in KINDS:
        cs.append(dict(id="before-%s" % kind, kind='access', moment='before', objkind=kind, **common))
        cs.append(dict(id="newpep-%s" % kind, kind='access', moment='new-pep', objkind=kind, **common))
    for kind in MIXED_KINDS:
        cs.append(dict(id="extended-%s" % kind, kind='access', moment='extended-after-solve', objkind=kind, **common))
        if tier == 'thorough' or kind in ('mixedE', 'mixedProd', 'mixedCons', 'mixedLmi', 'valuedP'):
            cs.append(dict(id="extended-failed-%s" % kind, kind='access', moment='extended-then-failed', objkind=kind, **common))
    for be in ('cvxpy', 'mosek'):
        cs.append(dict(id="status-%s" % be, kind='status', backend=be, statuses=('optimal',) + BAD, **common))
        # the reporting path must not change what solve returns: the default verbosity (1) and the solver log (2)
        cs.append(dict(id="status-%s-verbose" % be, kind='status', backend=be, statuses=('optimal',) + BAD,
                       verbose=1, **common))
        cs.append(dict(id="status-%s-verbose2" % be, kind='status', backend=be, statuses=('optimal',) + BAD,
                       verbose=2, **common))
        if tier == 'thorough':
            for kind in KINDS:
                cs.append(dict(id="newpep-%s-%s" % (be, kind), kind='access', moment='new-pep', objkind=kind, backend=be,
                               **common))
    cs.append(dict(id="opt-return", kind='options', option='return_primal_or_dual', **common))
    cs.append(dict(id="opt-dimred", kind='options', option='dimension_reduction_heuristic', **common))
    cs.append(dict(id="opt-return-concrete", kind='options-concrete', option='return_primal_or_dual', **common))
    cs.append(dict(id="opt-dimred-concrete", kind='options-concrete', option='dimension_reduction_heuristic', **common))
    both = dict(common)
    both['output_branches'] = 'both'     # every outcome of the rank / eigenvalue comparisons made before the option is
    for k, v in enumerate(['nuclear', 'TRACE', 'logdet']):      # validated is explored (one string per case: the forks multiply)
        cs.append(dict(id="opt-dimred-allbranches-%d" % k, kind='options-concrete', option='dimension_reduction_heuristic',
                       one_dim=True, only_values=[v], **both))
    cs.append(dict(id="wrapper-unknown", kind='wrapper', name='zz_not_a_package', fallback_documented=True, **common))
    cs.append(dict(id="wrapper-numpy", kind='wrapper', name='numpy', fallback_documented=False, **common))
    cs.append(dict(id="wrapper-CVXPY", kind='wrapper', name='CVXPY', fallback_documented=True, **common))
    return cs


def main(tier, only=None):
    cs = cases(tier)
    if only:
        cs = [c for c in cs if only in c['id']]
    return runner.run_property(
        "C16", tier, "vf.props.c16", cs, opts=dict(mode='fork', max_paths=5000),
        assumptions=["solver statuses: the cvxpy status strings / MOSEK prosta values of the manuals; for a non-optimal "
                     "status cvxpy returns None values, MOSEK returns arbitrary numbers (certificates) from getxx",
                     "int(str) modelled by its contract (raises ValueError or returns an integer, N in {0,1,2})",
                     "the `wrapper` option is exercised with concrete names"],
        bounds=dict(object_kinds=len(KINDS) + len(MIXED_KINDS), moments=5, option_strings="any length (z3 sequence theory)",
                    outside="histories of more than two PEPs; accessors after success-then-failure"))
