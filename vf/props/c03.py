"""C03 - class constraints never exclude a real member of the class.

The real add_class_constraints of every shipped class runs with symbolic class parameters; the recorded samples are then
ASSIGNED the values of a real member of the class drawn from a parametric family (symbolic shape parameters, symbolic
sample coordinates, admissible subgradient selections), and z3 must prove every generated scalar constraint (<= 0 / = 0)
and every class LMI (v^T T v >= 0 for symbolic v) for all values.  Nothing about interpolation theory is assumed."""
import numpy as np

from vf import runner, pipeline
from vf.denote import den_expr, den_point
from vf.refs.classes import FAMILIES


def setup_symbolic():
    from vf import npshim
    npshim.install()


def declare(env, pep, key, spec):
    """declare the function with symbolic parameters (documented admissibility as hypotheses)"""
    if key == 'blocksmooth':
        from PEPit.functions import BlockSmoothConvexFunction
        part = pep.declare_block_partition(d=2)
        Ls = [env.real("L%d" % k, lo=0, lo_strict=True) for k in range(2)]
        f = pep.declare_function(BlockSmoothConvexFunction, partition=part, L=Ls)
        return f, dict(L=Ls)
    cls, p = pipeline.class_params(env, key)
    kw = dict(p)
    if spec.get('inf'):
        for n in spec['inf']:
            kw[n] = np.inf
            p[n] = None
    f = pep.declare_function(cls, **kw)
    return f, p


def record_samples(env, f, key, spec):
    """evaluation points are fresh leaf points; optional stationary point, repeated evaluation, transpose samples"""
    from PEPit import Point
    xs = []
    for i in range(spec['N']):
        x = Point()
        xs.append(x)
        f.oracle(x)
    if key == 'linop':
        for i in range(spec.get('NT', 1)):
            u = Point()
            f.T.oracle(u)
    if spec.get('stationary') == 'after':
        f.stationary_point()
    if spec.get('repeat') and not f.reuse_gradient:
        f.oracle(xs[0])
    if spec.get('fixed'):
        f.fixed_point()
    return xs


def assign(env, f, key, fam, preset=None):
    """give every leaf the value the real member has there"""
    from PEPit import Point
    P, F = {}, {}
    if preset:
        for pt, what in preset.items():
            if what == 'v':
                # infimal displacement vector of the translation x -> x + b (a = 1): the range of I - T is {-b}
                env.assume(env.eq(fam.a, 1))
                P[pt] = [-fam.b]
    cache = {}
    dim = fam.dim
    fns = [f] + ([f.T] if key == 'linop' else [])
    for fi, fn in enumerate(fns):
        for idx, (x, g, fx) in enumerate(fn.list_of_points):
            tag = "%d_%d" % (fi, idx)
            stationary = len(g.decomposition_dict) == 0
            if not x.get_is_leaf():
                raise AssertionError("harness samples are leaf points")
            if x not in P:
                if stationary:
                    P[x] = fam.argmin(env)
                else:
                    P[x] = [env.real("X%s_%d" % (tag, k)) for k in range(dim)]
                    if g is x:
                        # fixed point of an operator: the real point satisfies T(x) = x
                        for a_, b_ in zip(fam.grad(P[x], env, tag), P[x]):
                            env.assume(env.eq(a_, b_))
            xv = P[x]
            if stationary:
                val = fam.value_at_min(xv) if hasattr(fam, 'value_at_min') else fam.value(xv)
            elif hasattr(fam, 'value_grad'):
                # piecewise members: the piece a point lies on is drawn once per point, the subgradient selection at a
                # kink once per evaluation
                if x in cache:
                    env_choice_value = cache[x]
                val, gv = fam.value_grad(xv, env, tag)
                if g.get_is_leaf() and g not in P:
                    P[g] = gv
            else:
                val = fam.value(xv)
                gv = fam.grad(xv, env, tag)
                if g.get_is_leaf() and g not in P:
                    P[g] = gv
            if fx.get_is_leaf() and fx not in F:
                F[fx] = val
    if key == 'blocksmooth':
        part = f.partition
        for point, blocks in part.blocks_dict.items():
            pv = den_point(point, P, dim)
            for k, b in enumerate(blocks[:-1]):
                P[b] = [pv[c] if c == k else 0 for c in range(dim)]
    # any remaining leaf (unused value leaves of operators ...) gets a free value
    from PEPit import Expression
    for e in Expression.list_of_leaf_expressions:
        if e not in F:
            F[e] = env.real("free_f%d" % e.counter)
    for p in Point.list_of_leaf_points:
        if p not in P:
            P[p] = [env.real("free_p%d_%d" % (p.counter, k)) for k in range(dim)]
    return P, F


def prog(env, case):
    from PEPit import PEP
    key, famname, spec = case['cls'], case['family'], case['spec']
    pep = PEP()
    f, p = declare(env, pep, key, spec)
    fam = dict(FAMILIES[key])[famname]()
    fam.bind(env, p)
    if spec.get('stationary') == 'before':
        f.stationary_point()
    record_samples(env, f, key, spec)
    vpoint = None
    if key == 'nonexp' and spec.get('with_v'):
        from PEPit import Point
        vpoint = Point()
        f.v = vpoint                # infimal displacement vector declared by the user
    f.set_class_constraints()
    P, F = assign(env, f, key, fam, preset=({vpoint: 'v'} if vpoint is not None else None))
    tag = "C03:%s:%s" % (key, famname)
    n = 0
    for c in f.list_of_class_constraints:
        val = den_expr(c.expression, P, F)
        rel = '<=' if c.equality_or_inequality == 'inequality' else '=='
        cname = (c.get_name() or 'unnamed')
        cond = cname.split('_', 2)[-1].split('(')[0] if cname.startswith('IC_') else cname
        env.check_rel(val, rel, "class constraint %s excludes a real member (%s family)" % (cname, famname),
                      signature=tag + ":" + _cond_name(cname), timeout_ms=case.get('timeout_ms', 30000))
        n += 1
    for li, psd in enumerate(f.list_of_class_psd):
        N = psd.shape[0]
        if env.sym:
            v = [env.real("v%d_%d" % (li, i)) for i in range(N)]
            q = 0
            for i in range(N):
                for j in range(N):
                    q = q + v[i] * v[j] * den_expr(psd[i, j], P, F)
            env.check_rel(q, '>=', "class LMI %d is not PSD on a real member (%s family)" % (li, famname),
                          signature=tag + ":lmi%d" % li, timeout_ms=case.get('timeout_ms', 30000))
        else:
            T = np.array([[float(den_expr(psd[i, j], P, F)) for j in range(N)] for i in range(N)])
            w = np.linalg.eigvalsh((T + T.T) / 2)
            env.check(w.min() >= -1e-7 * (1 + abs(T).max()), "class LMI %d is not PSD on a real member: min eig %g"
                      % (li, w.min()), signature=tag + ":lmi%d" % li)
        n += 1
    env.reachable("member hypotheses")
    return "%d constraints" % n


def _cond_name(cname):
    """IC_<function>_<condition>(<points>) -> <condition>"""
    if not cname.startswith('IC_'):
        return cname
    body = cname[3:].split('(')[0]
    # function id is 'Function_<k>' or a user name without underscore in the harness
    parts = body.split('_')
    if parts[0] == 'Function' and len(parts) > 2:
        return "_".join(parts[2:])
    return "_".join(parts[1:])


STAT_REQUIRED = {'qg', 'rsi'}            # classes whose conditions are stated relative to an optimum
NO_MIN = {'affine', 'rot', 'linear', 'skew2d'}


def cases(tier):
    cs = []
    for key, fams in FAMILIES.items():
        for fi, (famname, mk) in enumerate(fams):
            variants = []
            has_min = famname not in NO_MIN and not (key in ('monotone', 'strmono', 'coco', 'lipop', 'nonexp', 'cocostr',
                                                             'lipstr', 'negcomo', 'symlin', 'skew', 'linop'))
            Ns = [2] if tier == 'quick' else [2, 3]
            for N in Ns:
                if key == 'quad':
                    variants.append(dict(N=N))          # the class declares its own stationary point
                    continue
                variants.append(dict(N=N))
                if has_min:
                    variants.append(dict(N=N, stationary='before'))
                    variants.append(dict(N=N, stationary='after'))
                if tier == 'thorough' or N == 2:
                    if key in ('convex', 'lipschitz', 'indicator', 'support', 'monotone', 'strmono', 'strongly', 'qg',
                               'rsi'):
                        variants.append(dict(N=N, repeat=True, stationary='before' if key in STAT_REQUIRED else None))
            if key in ('indicator', 'support'):
                variants.append(dict(N=2, inf=['D' if key == 'indicator' else 'M']))
            if key == 'linop' and tier == 'thorough':
                variants.append(dict(N=2, NT=2))
            if key == 'nonexp' and famname == 'affine':
                variants.append(dict(N=2, with_v=True))
            if key in ('monotone', 'strmono', 'coco', 'lipop', 'nonexp', 'cocostr', 'lipstr', 'negcomo') and famname == 'affine':
                variants.append(dict(N=2, fixed=True))
            for vi, spec in enumerate(variants):
                if spec['N'] == 3 and famname in ('maxaffine', 'interval'):
                    spec = dict(spec)
                cs.append(dict(id="%s-%s-%d" % (key, famname, vi), cls=key, family=famname, spec=spec,
                               timeout_ms=60000 if tier == 'quick' else 120000))
    return cs


def main(tier, only=None):
    cs = cases(tier)
    if only:
        cs = [c for c in cs if only in c['id']]
    return runner.run_property(
        "C03", tier, "vf.props.c03", cs, opts=dict(mode='reexec', max_paths=200000),
        assumptions=["real members are drawn from parametric families (1-D quadratics, affine, max of two affine pieces, "
                     "interval indicator / support functions, 1-D affine and 2-D rotation-scaling operators, 1-D linear and "
                     "2-D skew operators, 2-D separable quadratics for block-smooth): members outside the families are "
                     "outside the claim",
                     "non-linear claims are normalised with sympy (together / cancel / factor); each rewrite is re-checked "
                     "by z3"],
        bounds=dict(samples="N = 2 (+ stationary point, + one repeated evaluation)" if tier == 'quick' else "N <= 3",
                    classes=len(FAMILIES), outside="members outside the families (non-separable functions in d >= 2); N > 3"))
