"""C14 - dimension-reduction post-processing keeps the guarantee it started from.

PEP.solve(..., dimension_reduction_heuristic=h) runs on the real code with h in {trace, logdet0, logdet1, logdet2}, both
back-ends, primal and dual mode, symbolic tolerance and regularisation; every solver call returns independent symbols.
z3 proves: the value returned in dual mode and all exposed multipliers are those of the FIRST solve and satisfy C01's
certificate identity for the original problem; the value returned in primal mode is the original objective leaf at the
LAST solution and is >= first optimum - tol by the row the wrapper added; every later problem contains all original rows
(so the returned instance is feasible for the original model) plus exactly that one row; the objective handed over is
<W, G> with W = I (trace) or the regularised inverse (logdet), with no leftover linear term.  'The trace does not increase' itself is NOT decided here: it needs weak duality
of the second problem instantiated at the first solution, a bilinear real-arithmetic query on which z3 answered unknown
after 600 s even for a 2x2 Gram matrix; what is proved are its premises (the first solution satisfies every row of the
second problem, whose objective is exactly trace(G))."""
import numpy as np
import z3

from vf import runner, pipeline, sdp
from vf.engine import lift
from vf.solverstub import CvxStub, MosekStub, psd_hypothesis
from vf.props import c01, c05, c02


def setup_symbolic():
    pipeline.setup_symbolic()


def setup_concrete():
    pipeline.setup_concrete()


def default_values(case):
    return pipeline.default_values()


signature_matches = c01.signature_matches


_EVENTS = []
_WEIGHTS = []


def _watch_events():
    """record, from outside, the order of `get_nb_eigenvalues_and_corrected_matrix` and `wrapper.heuristic` calls"""
    from PEPit.pep import PEP
    from PEPit.wrappers import CvxpyWrapper, MosekWrapper
    if getattr(PEP, '_vf_watched', False):
        return
    orig = PEP.get_nb_eigenvalues_and_corrected_matrix

    def corrected(M):
        _EVENTS.append('corrected')
        return orig(M)
    PEP.get_nb_eigenvalues_and_corrected_matrix = staticmethod(corrected)
    for cls in (CvxpyWrapper, MosekWrapper):
        h0 = cls.heuristic

        def heuristic(self, weight, _h0=h0):
            _EVENTS.append('heuristic')
            _WEIGHTS.append(weight)
            return _h0(self, weight)
        cls.heuristic = heuristic
    PEP._vf_watched = True


def prog(env, case):
    from PEPit import Point, Expression
    _watch_events()
    del _EVENTS[:]
    del _WEIGHTS[:]
    spec = dict(case['spec'])
    backend = case['backend']
    requested = case.get('requested', backend)      # name handed to PEP.solve (an unavailable package falls back on cvxpy)
    h = case['heuristic']
    mode = case['mode']
    tag = "C14:%s:%s:%s" % (backend if requested == backend else "fallback", h, mode)
    spec['backend'] = backend
    if env.sym:
        cstub = CvxStub(env).install()
        mstub = MosekStub(env).install()
        stub = mstub if backend == 'mosek' else cstub
    elif backend == 'mosek':
        pipeline.enable_mosek_emulator()
    m = c02.tiny_model(env, spec) if spec.get('tiny') else pipeline.build(env, spec)
    pep = m.pep
    tol = env.real("tol", lo=0)
    reg = env.real("reg", lo=0, lo_strict=True)
    tau, err = pipeline.safe_solve(env, pep, tag, wrapper=requested, verbose=0, return_primal_or_dual=mode,
                                   dimension_reduction_heuristic=h, tol_dimension_reduction=tol, eig_regularization=reg)
    if err:
        return err
    if tau is None:
        return "no value"
    n_solves_expected = 1 + (1 if h == 'trace' else int(h[6:]))
    w = pep.wrapper
    n = Point.counter
    if env.sym:
        env.check(len(stub.solves) == n_solves_expected, "%d solver calls for heuristic %s" % (len(stub.solves), h),
                  signature=tag + ":solves")
        first, last = stub.solves[0], stub.solves[-1]
        wc_first = first.primal_value
    # ---- duals and dual value: those of the first solve, certificate of the ORIGINAL problem -------------------
    spec2 = dict(spec)
    spec2['return'] = mode
    spec2['dimred'] = h
    if env.sym:
        c01.check_certificate(env, m, tau, stub, spec2, kpool='kkt0', pid="C14")
        if mode == 'dual':
            env.check_eq(tau, wc_first, "value returned in dual mode is not the first (original) problem's optimum under its "
                         "strong-duality contract", signature=tag + ":dual-value-original", pools=('kkt0', 'gap0'))
    else:
        c01.concrete_check(env, m, tau, spec2, pid="C14")
        dual_value = float(c01.residue(pep).get('c', 0))     # constant of the certificate = the original problem's bound
    # ---- primal mode: objective leaf at the last solution, within tol of the optimum --------------------------------
    Fv = pep.F_value
    if mode == 'primal':
        env.check_eq(tau, Fv[pep.objective.counter], "value returned in primal mode is not the original objective at the "
                     "returned instance", signature=tag + ":primal-value")
        if env.sym and n_solves_expected > 1:
            env.check(env.ge(tau, wc_first - tol), "primal value is not within tol of the first optimum although the "
                      "solver's last solution satisfies the rows it was given", signature=tag + ":within-tol",
                      pools=('primal%d' % (len(stub.solves) - 1),))
        if not env.sym and n_solves_expected > 1:
            env.check(float(tau) >= dual_value - float(tol) - 2e-3 * (1 + abs(dual_value)),
                      "primal value %g is more than tol=%g below the optimum %g" % (float(tau), float(tol), dual_value),
                      signature=tag + ":within-tol")
    if env.sym:
        # the instance PEPit evaluates is the last solution
        lastG = last.x if backend == 'cvxpy' else None
        Gv = pep.G_value
        if backend == 'cvxpy':
            for i in range(n):
                for j in range(i, n):
                    env.check_eq(Gv[i, j], last.x[w.G.key((i, j))], "G_value is not the last solver solution",
                                 signature=tag + ":instance-last")
        else:
            for i in range(n):
                for j in range(i, n):
                    env.check_eq(Gv[i, j], last.barx[0][i, j], "G_value is not the last solver solution",
                                 signature=tag + ":instance-last")
    if not env.sym:
        Gl = np.asarray(w.optimal_G, dtype=float)
        Gp = np.asarray(pep.G_value, dtype=float)
        env.check(np.abs(Gl - Gp).max() <= 1e-6 * (1 + np.abs(Gl).max()), "G_value is not the last solver solution "
                  "(max deviation %g, Gram scale %g)" % (np.abs(Gl - Gp).max(), np.abs(Gl).max()),
                  signature=tag + ":instance-last")
    # ---- what the last problem is --------------------------------------------------------------------------------------
    if n_solves_expected > 1:
        if backend == 'mosek':
            rec = sdp.rows_from_mosek(w.task, Expression.counter)
        elif env.sym:
            rec = sdp.rows_from_cvxpy(w, w.prob)
        else:
            rec = c05.rows_from_real_cvxpy(w)
        exp, lmis = c05.declared(m)
        missing, extra = sdp.match_rows(env, exp, rec['rows'])
        env.check(not missing, "the last problem lost original constraints: %s" % [sdp.describe(r) for r in missing[:2]],
                  signature=tag + ":lost-rows")
        ok = len(extra) == 1 and extra[0]['kind'] == 'le' and set(extra[0]['form']) == {('F', pep.objective.counter)}
        env.check(ok, "the last problem should contain exactly one extra row (first optimum - tol - objective <= 0); got %s"
                  % [sdp.describe(r) for r in extra[:3]], signature=tag + ":extra-row")
        if ok and not env.sym:
            env.check(abs(float(extra[0]['const']) - (dual_value - float(tol))) <= 2e-3 * (1 + abs(dual_value)),
                      "extra row bound %g is not (first optimum %g - tol %g)" % (float(extra[0]['const']), dual_value, float(tol)),
                      signature=tag + ":extra-row-bound")
        if ok and env.sym:
            env.check_eq(extra[0]['form'][('F', pep.objective.counter)], -1, "extra row coefficient", signature=tag + ":extra-row")
            env.check_eq(extra[0]['const'], wc_first - tol, "extra row bound is not (first optimum - tol)",
                         signature=tag + ":extra-row-bound")
        sense, of, oc = rec['objective']
        env.check(sense == 'min' and not any(k[0] != 'G' for k in of) and sdp._zero(oc) if env.sym else sense == 'min',
                  "objective of the heuristic problem is not a pure 'minimise <W, G>' (sense %s, keys %s)"
                  % (sense, [str(k) for k in of if k[0] != 'G']), signature=tag + ":objective-shape")
        # the objective handed to the solver is <W, G> for the weight matrix the PEP passed LAST (a wrapper that keeps the
        # problem of an earlier call would minimise a stale objective)
        if _WEIGHTS and sense == 'min':
            W = _WEIGHTS[-1]
            for i in range(n):
                for j in range(i, n):
                    want = W[i, i] if i == j else W[i, j] + W[j, i]
                    got = of.get(('G', i, j), 0)
                    if env.sym:
                        env.check_eq(got, want, "objective weight of G[%d,%d] in the last heuristic problem is not the weight "
                                     "passed to wrapper.heuristic last" % (i, j), signature=tag + ":objective-weights")
                    else:
                        env.check(abs(float(got) - float(want)) <= 1e-6 * (1 + abs(float(want))),
                                  "objective weight of G[%d,%d] in the last heuristic problem is %g, the weight passed to "
                                  "wrapper.heuristic last is %g" % (i, j, float(got), float(want)),
                                  signature=tag + ":objective-weights")
        if h == 'trace':
            ref = dict(kind='eq', form={('G', i, i): 1 for i in range(n)}, const=0)
            env.check(sdp.same_row(env, ref, dict(kind='eq', form=of, const=oc), prove=True),
                      "trace heuristic: objective is not trace(G)", signature=tag + ":objective-trace")
            if env.sym and spec.get('tiny') and case.get('check_trace_decrease') and backend == 'cvxpy':
                # weak duality of the second problem instantiated at the first solution (feasible for it)
                G1 = [[first.x[w.G.key((i, j))] for j in range(n)] for i in range(n)]
                G2 = [[last.x[w.G.key((i, j))] for j in range(n)] for i in range(n)]
                hyp = [psd_hypothesis(np.array(G1, dtype=object)), psd_hypothesis(np.array(G2, dtype=object))]
                hyp += [psd_hypothesis(M) for _, M in last.psd_dual]
                tr1 = sum(G1[i][i] for i in range(n))
                tr2 = sum(G2[i][i] for i in range(n))
                r, _ = env.eng.valid(env.le(tr2, tr1), ('primal0', 'kkt0', 'gap0', 'kkt1', 'gap1', 'primal1'), extra=hyp,
                                     timeout_ms=case.get('timeout_ms', 120000))
                env.claims += 1
                if r == 'unsat':
                    env.proved += 1
                elif r == 'unknown':
                    env.inconclusive.append("trace decrease (weak duality of the second problem)")
                else:
                    env.check(env.le(tr2, tr1), "trace of the Gram matrix can increase under the solver contract",
                              signature=tag + ":trace-increases", pools=('primal0', 'kkt0', 'gap0', 'kkt1', 'gap1', 'primal1'))
        if not env.sym and h == 'trace':
            pass
    if h.startswith('logdet') and n_solves_expected > 1:
        # every logdet iteration must recompute its weight from the latest solution: between two consecutive calls of
        # wrapper.heuristic the eigenvalue-corrected Gram matrix has to be recomputed (observed from outside)
        ok_order = True
        last_h = None
        for i, ev in enumerate(_EVENTS):
            if ev == 'heuristic':
                if last_h is not None and 'corrected' not in _EVENTS[last_h + 1:i]:
                    ok_order = False
                last_h = i
        env.check(ok_order, "a logdet iteration re-used the weight matrix of the previous one (the corrected Gram matrix was "
                  "not recomputed in between): events %s" % _EVENTS, signature=tag + ":stale-weights")
    if env.sym and h.startswith('logdet') and n_solves_expected > 1 and backend == 'cvxpy':
        from vf.npshim import provenance_closure, _symbols
        for k in range(1, n_solves_expected):
            sv = stub.solves[k]
            if backend == 'cvxpy':
                coefs = list(sv.problem.objective.expr.terms.values())
            else:
                coefs = [w_ for lst in sv.task.barC.values() for (si, w_) in lst] + \
                        [v for lst in sv.task.barC.values() for (si, w_) in lst for (_, _, v) in sv.task.symmats[si][1]]
            names = _symbols(coefs)
            clos = provenance_closure(env.eng, names)
            pre = "o.x%d." % (k - 1) if backend == 'cvxpy' else "o.m%d." % (k - 1)
            env.check(any(nm.startswith(pre) for nm in clos),
                      "the weight matrix of logdet iteration %d is not derived from the solution of the previous solve "
                      "(stale weights)" % k, signature=tag + ":stale-weights-provenance")
    env.reachable("C14", pools=('kkt0',))
    return "%s %s" % (h, mode)


def cases(tier):
    cs = []
    hs = ['trace', 'logdet0', 'logdet1', 'logdet2']
    models = [('gd', dict(fclass='ssc', steps=['grad'])),
              ('negative-optimum', dict(fclass='sc', steps=['grad'], stationary=False, negative=True))]
    models += [('lmi', dict(fclass='ssc', steps=['grad'], lmis=['sym2'], lmi_metric=False))]
    if tier == 'thorough':
        models += [('qg', dict(fclass='qg', steps=['grad'], stationary=False))]
    for mname, spec in models:
        for h in hs:
            for be in ('cvxpy', 'mosek'):
                for mode in ('dual', 'primal'):
                    if mname == 'negative-optimum' and (h not in ('trace', 'logdet1') or mode == 'primal') and tier == 'quick':
                        continue
                    if mname == 'lmi' and (h not in ('trace', 'logdet1') or mode == 'dual') and tier == 'quick':
                        continue
                    cs.append(dict(id="%s-%s-%s-%s" % (mname, h, be, mode), spec=spec, heuristic=h, backend=be, mode=mode,
                                   input_zero_tests='generic', output_branches='first'))
    # the options must also be honoured when the requested back-end is unavailable and PEP.solve falls back on cvxpy
    for h in ('trace', 'logdet1'):
        cs.append(dict(id="gd-%s-fallback-primal" % h, spec=dict(fclass='ssc', steps=['grad']), heuristic=h, backend='cvxpy',
                       requested='zz_not_a_package', mode='primal', input_zero_tests='generic', output_branches='first'))
    cs.append(dict(id="tiny-trace-cvxpy-dual", spec=dict(tiny=True, fclass='smooth', metrics=1), heuristic='trace',
                   backend='cvxpy', mode='dual', check_trace_decrease=False, input_zero_tests='generic',
                   output_branches='first', timeout_ms=600000))
    return cs


def main(tier, only=None):
    cs = cases(tier)
    if only:
        cs = [c for c in cs if only in c['id']]
    return runner.run_property(
        "C14", tier, "vf.props.c14", cs, opts=dict(mode='fork', max_paths=5000),
        assumptions=["every solver call returns independent symbols constrained by its own KKT / primal contract",
                     "np.linalg.eigh / inv replaced by their contracts; eigenvalue-threshold comparisons on solver outputs are "
                     "explored one way in the quick tier ('first' cut: the asserted quantities do not depend on them)",
                     "'trace does not increase' is not decided (z3: unknown after 600 s on the bilinear weak-duality query, "
                     "2x2 Gram); its premises are proved: the second problem = original rows + one row satisfied by the first "
                     "solution, objective exactly trace(G)"],
        bounds=dict(heuristics="trace, logdet0, logdet1, logdet2", models=1 if tier == 'quick' else 3,
                    outside="N > 2 logdet iterations; the numerical rank decision"))
