"""C15 - block partitions behave as orthogonal coordinate-block projections.

The real BlockPartition code runs on a drawn scenario (number of blocks d, which points are decomposed - leaves, symbolic
combinations, in which order, repeated requests -, points never decomposed).  z3 proves for all coefficient / coordinate
values: the blocks sum back to the point; a second request returns the same objects; d = 1 is the identity without any
constraint; after add_partition_constraints the constraint set IS {<x^(k), y^(l)> = 0 : x, y decomposed, k != l}, each
once up to symmetry, nothing else (compared as affine forms); real coordinate-block projections of symbolic vectors in
R^n (every assignment of the n coordinates to the d blocks) satisfy every one of them."""
import itertools

from vf import runner, pipeline
from vf.denote import den_point, den_expr, canon, dot
from vf.props.c04 import same_form, trivial


def setup_symbolic():
    pipeline.setup_symbolic()       # shim + solver stand-ins (the solve-time cases run PEP.solve under the contract stub)


def setup_concrete():
    pipeline.setup_concrete()


def prog_solve(env, case):
    """what PEP.solve hands to the solver for a model with a partition: the rows are the model's other rows plus exactly
    the cross-block orthogonality relations of the decomposed points (expectation built here from the blocks, not from
    the partition's own constraint list)"""
    from vf import sdp
    from vf.props import c05
    from vf.solverstub import CvxStub, MosekStub
    from PEPit import Expression
    from PEPit.block_partition import BlockPartition
    backend = case['backend']
    d = case['d']
    tag = "C15:solve:%s:d%d%s" % (backend, d, ":constructor" if case.get('direct') else "")
    spec = dict(fclass='ssc', steps=['grad'], cons=[], lmis=[], metrics=1, partition=d, backend=backend,
                partition_direct=bool(case.get('direct')))
    if case.get('second'):
        spec['second_partition'] = case['second']      # a second, unrelated partition that decomposes the starting point
        tag += ":second%d" % case['second']
    if env.sym:
        CvxStub(env).install()
        MosekStub(env).install()
    elif backend == 'mosek':
        pipeline.enable_mosek_emulator()
    m = pipeline.build(env, spec)
    tau, err = pipeline.safe_solve(env, m.pep, tag, wrapper=backend, verbose=0)
    if err:
        return err
    w = m.pep.wrapper
    if backend == 'mosek':
        rec = sdp.rows_from_mosek(w.task, Expression.counter)
    elif env.sym:
        rec = sdp.rows_from_cvxpy(w, w.prob)
    else:
        rec = c05.rows_from_real_cvxpy(w)
    parts = [m.partition] + ([m.partition2] if getattr(m, 'partition2', None) is not None else [])
    if len(parts) == 2:
        # two declared partitions are two coordinate structures: they do not share their blocks
        x0 = m.points['x0']
        shared = parts[0] is parts[1] or (x0 in parts[0].blocks_dict and x0 in parts[1].blocks_dict and
                                          any(a is b for a, b in zip(parts[0].blocks_dict[x0], parts[1].blocks_dict[x0])))
        env.check(not shared, "two separately declared partitions share their blocks (the same partition object / the same "
                  "block points were returned): the decompositions of unrelated partitions are tied together",
                  signature=tag + ":partitions-aliased")
        if parts[0] is parts[1]:
            parts = parts[:1]
    # the model's other rows (class constraints, initial condition, metric): C05's expectation without the partitions
    registry = BlockPartition.list_of_partitions
    BlockPartition.list_of_partitions = []
    try:
        other, lmis = c05.declared(m)
    finally:
        BlockPartition.list_of_partitions = registry
    expected = []
    for part in parts:
        items = [(x, k) for x in part.blocks_dict for k in range(part.d)]
        for (x, k), (y, l) in itertools.combinations_with_replacement(items, 2):
            if k == l or (x is y and k > l):
                continue
            f = dict(canon(part.blocks_dict[x][k] * part.blocks_dict[y][l]))
            c0 = f.pop('c', 0)
            if trivial(env, f):
                continue
            expected.append(dict(kind='eq', form=f, const=c0, src='orthogonality', sign_free=True))
    env.check(len(expected) > 0 or d == 1, "harness: the model decomposes no point", signature=tag + ":harness")
    missing, extra = sdp.match_rows(env, other + expected, rec['rows'])
    miss_o = [r for r in missing if r.get('src') == 'orthogonality']
    env.check(not miss_o, "%d of %d cross-block orthogonality relation(s) of decomposed points are not handed to the solver "
              "at solve time, e.g. %s" % (len(miss_o), len(expected), [sdp.describe(r) for r in miss_o[:2]]),
              signature=tag + ":orthogonality-not-sent")
    env.check(not extra, "the solver received %d row(s) beyond the model's constraints and the cross-block orthogonality "
              "relations, e.g. %s" % (len(extra), [sdp.describe(r) for r in extra[:2]]), signature=tag + ":extra-rows")
    return "solve d=%d: %d orthogonality rows" % (d, len(expected))


def prog(env, case):
    if case.get('kind') == 'temporaries':
        return prog_temporaries(env, case)
    if case.get('kind') == 'solve':
        return prog_solve(env, case)
    from PEPit import PEP, Point
    from PEPit.block_partition import BlockPartition
    d = case['d']
    npts = case['npts']
    n = case.get('ncoord', 3)
    pep = PEP()
    part = pep.declare_block_partition(d=d)
    leaves = [Point() for _ in range(2)]
    a, b = env.real("a"), env.real("b")
    # pool of candidate points: leaves, a symbolic combination, a second object with the same decomposition, the null point
    pool = [leaves[0], leaves[1], a * leaves[0] + b * leaves[1], a * leaves[0] + b * leaves[1], leaves[0] - leaves[0]]
    names = ['p0', 'p1', 'comb', 'comb-twin', 'null']
    forced = list(case.get('forced', []))

    def ch(k, label):
        if forced:
            v = forced.pop(0)
            if v >= k:
                from vf.engine import Abort
                raise Abort()
            return v
        return env.choose(k, label)

    decomposed = []
    trace = []
    got = {}
    for step in range(npts):
        i = ch(len(pool), 'which-point')
        k = ch(d, 'which-block')
        x = pool[i]
        blk = part.get_block(x, k)
        trace.append("%s[%d]" % (names[i], k))
        if not any(x is y for y in decomposed):
            decomposed.append(x)
        # asking again returns the same object
        again = part.get_block(x, k)
        env.check(again is blk, "a second get_block(%s, %d) returned another object" % (names[i], k),
                  signature="C15:same-blocks")
        if (i, k) in got:
            env.check(got[(i, k)] is blk, "get_block(%s, %d) changed between two requests" % (names[i], k),
                      signature="C15:same-blocks")
        got[(i, k)] = blk
    tag = "C15:d%d" % d
    # real side: vectors in R^n, coordinates assigned to blocks
    # coordinate c < d belongs to block c; the owner of the remaining coordinate(s) is drawn (so block sizes 1 and 2 and,
    # through symmetry, every assignment of d + 1 coordinates with no empty block)
    n = d + 1
    owner = list(range(d)) + [ch(d, 'coordinate-owner') if d > 1 else 0]
    P = {}
    for li, p in enumerate(leaves):
        P[p] = [env.real("x%d_%d" % (li, c)) for c in range(n)]
    blocks_of = {}
    for x in decomposed:
        blocks = [part.get_block(x, k) for k in range(d)]
        blocks_of[id(x)] = blocks
        xv = den_point(x, P, n)
        for k, bk in enumerate(blocks[:-1]):
            if bk.get_is_leaf() and bk not in P:
                P[bk] = [xv[c] if owner[c] == k else 0 for c in range(n)]
    for p in Point.list_of_leaf_points:
        if p not in P:
            P[p] = [env.real("free%d_%d" % (p.counter, c)) for c in range(n)]
    for x in decomposed:
        blocks = blocks_of[id(x)]
        xv = den_point(x, P, n)
        tot = [0] * n
        for bk in blocks:
            bv = den_point(bk, P, n)
            tot = [t + v for t, v in zip(tot, bv)]
        for c in range(n):
            env.check_eq(tot[c], xv[c], "blocks do not sum back to the point", signature=tag + ":sum")
        # formal (not only on real projections): the sum of the blocks IS the point as a combination of leaves
        acc = None
        for bk in blocks:
            acc = bk if acc is None else acc + bk
        diff = acc - x
        env.check(trivial(env, dict((k, v) for k, v in diff.decomposition_dict.items())),
                  "blocks do not sum back to the point (as formal combinations)", signature=tag + ":sum-formal")
        # each block of a real vector is its coordinate projection (last block included)
        for k, bk in enumerate(blocks):
            bv = den_point(bk, P, n)
            for c in range(n):
                env.check_eq(bv[c], xv[c] if owner[c] == k else 0, "block %d is not the coordinate-block projection" % k,
                             signature=tag + ":projection")
        if d == 1:
            env.check(blocks[0] is x or trivial(env, (blocks[0] - x).decomposition_dict),
                      "one-block partition is not the identity", signature=tag + ":identity")
    # ---- constraints imposed at solve time ----------------------------------------------------------------------
    env.check(len(part.list_of_constraints) == 0, "partition holds constraints before any solve",
              signature=tag + ":early-constraints")
    part.add_partition_constraints()
    gens = list(part.list_of_constraints)
    gforms = [dict(canon(c.expression)) for c in gens]
    ref = []
    items = [(x, k) for x in decomposed for k in range(d)]
    for (x, k), (y, l) in itertools.combinations_with_replacement(items, 2):
        if k == l:
            continue
        if x is y and k > l:
            continue
        e = blocks_of[id(x)][k] * blocks_of[id(y)][l]
        ref.append(((x, k), (y, l), dict(canon(e))))
    used = [False] * len(gens)
    n_missing = 0
    for (x, k), (y, l), rf in ref:
        if trivial(env, rf):
            continue
        hit = None
        for gi, c in enumerate(gens):
            if not used[gi] and c.equality_or_inequality == 'equality' and same_form(env, gforms[gi], rf, True):
                hit = gi
                break
        if hit is None:
            n_missing += 1
        else:
            used[hit] = True
    env.check(n_missing == 0, "scenario %s: %d orthogonality relation(s) between different blocks are not imposed"
              % (trace, n_missing), signature=tag + ":missing-orthogonality")
    extra = [gens[gi] for gi in range(len(gens)) if not used[gi] and not trivial(env, gforms[gi])]
    env.check(not extra, "scenario %s: %d constraint(s) that are not a cross-block orthogonality (or duplicates)"
              % (trace, len(extra)), signature=tag + ":extra-constraints")
    if d == 1:
        env.check(len(gens) == 0, "one-block partition imposes constraints", signature=tag + ":identity-constraints")
    # real projections satisfy all of them
    for c in gens:
        env.check_eq(den_expr(c.expression, P, {}), 0, "a partition constraint fails on real coordinate-block projections",
                     signature=tag + ":real-projections")
    # ---- a later solve after more points were decomposed: again the complete set, each relation once -------------
    if case.get('twice') and d > 1:
        extra_pt = pool[(ch(len(pool), 'later-point'))]
        part.get_block(extra_pt, 0)
        if not any(extra_pt is y for y in decomposed):
            decomposed.append(extra_pt)
        blocks_of[id(extra_pt)] = [part.get_block(extra_pt, k) for k in range(d)]
        part.add_partition_constraints()
        gens2 = list(part.list_of_constraints)
        g2 = [dict(canon(c.expression)) for c in gens2]
        items2 = [(x, k) for x in decomposed for k in range(d)]
        used2 = [False] * len(gens2)
        missing2 = 0
        for (x, k), (y, l) in itertools.combinations_with_replacement(items2, 2):
            if k == l or (x is y and k > l):
                continue
            rf = dict(canon(blocks_of[id(x)][k] * blocks_of[id(y)][l]))
            if trivial(env, rf):
                continue
            hit = None
            for gi, c in enumerate(gens2):
                if not used2[gi] and same_form(env, g2[gi], rf, True):
                    hit = gi
                    break
            if hit is None:
                missing2 += 1
            else:
                used2[hit] = True
        env.check(missing2 == 0, "scenario %s + a point decomposed after a first solve: %d orthogonality relation(s) are not "
                  "imposed at the second solve" % (trace, missing2), signature=tag + ":missing-orthogonality-second-solve")
        extra2 = [gens2[gi] for gi in range(len(gens2)) if not used2[gi] and not trivial(env, g2[gi])]
        env.check(not extra2, "scenario %s: %d duplicated / foreign partition constraint(s) at the second solve"
                  % (trace, len(extra2)), signature=tag + ":extra-constraints-second-solve")
    return trace


def prog_temporaries(env, case):
    """points that nobody keeps a reference to are decomposed, then fresh points: each must get ITS OWN blocks"""
    from PEPit import PEP, Point
    from vf.props.c04 import trivial as _trivial
    d = case['d']
    pep = PEP()
    part = pep.declare_block_partition(d=d)
    p0, p1 = Point(), Point()
    a = env.real("a")
    bad = 0
    for rep in range(12):
        part.get_block(p0 - p1, rep % d)            # a temporary: unreachable as soon as the call returns
        part.get_block(a * p0, (rep + 1) % d)
        z = p0 + p1 if rep % 2 == 0 else a * p1      # a brand-new point (may be allocated where the temporary lived)
        blocks = [part.get_block(z, k) for k in range(d)]
        acc = None
        for bk in blocks:
            acc = bk if acc is None else acc + bk
        diff = (acc - z).decomposition_dict
        if not _trivial(env, dict(diff)):
            bad += 1
    env.check(bad == 0, "blocks returned for a new point do not sum back to it in %d of 12 rounds (blocks of another, "
              "already discarded point were returned)" % bad, signature="C15:d%d:foreign-blocks" % d)
    return "temporaries"


def cases(tier):
    cs = [dict(id="temporaries-d2", d=2, kind='temporaries'), dict(id="temporaries-d3", d=3, kind='temporaries')]
    for be in ('cvxpy', 'mosek'):
        for d in ((2,) if tier == 'quick' else (1, 2, 3)):
            for direct in (False, True):
                cs.append(dict(id="solve-%s-d%d%s" % (be, d, "-constructor" if direct else ""), kind='solve', backend=be, d=d,
                               direct=direct, input_zero_tests='generic', output_branches='first'))
        for second in ((2,) if tier == 'quick' else (2, 3)):
            cs.append(dict(id="solve-%s-d2-second%d" % (be, second), kind='solve', backend=be, d=2, second=second,
                           input_zero_tests='generic', output_branches='first'))
    for d in ((1, 2, 3) if tier == 'quick' else (1, 2, 3, 4)):
        npts = {1: 3, 2: 3, 3: 2, 4: 2}[d] if tier == 'quick' else {1: 4, 2: 4, 3: 3, 4: 2}[d]
        for first in range(5):
            if d == 1:
                cs.append(dict(id="d%d-first%d" % (d, first), d=d, npts=npts, forced=[first], ncoord=3))
            else:
                for blk in range(d):        # (point, block) of the first request: finer cases = better load balance
                    cs.append(dict(id="d%d-first%d-%d" % (d, first, blk), d=d, npts=npts, forced=[first, blk], ncoord=3))
            if d == 2:
                cs.append(dict(id="d2-twice-first%d" % first, d=2, npts=2, forced=[first], ncoord=3, twice=True))
    return cs


def main(tier, only=None):
    cs = cases(tier)
    if only:
        cs = [c for c in cs if only in c['id']]
    return runner.run_property(
        "C15", tier, "vf.props.c15", cs, opts=dict(mode='reexec', max_paths=1000000),
        assumptions=["block-smooth class constraints vs the per-block reference and on separable real members are decided "
                     "in C04 / C03 (class key 'blocksmooth')",
                     "solve-time cases: PEP.solve runs under the solver contract stub on a block-smooth gradient-step model "
                     "(partition declared through the PEP or built with the public constructor); repeated solves in C13"],
        bounds=dict(blocks="d <= 3 (4 thorough)", get_block_requests="3 (d<=2), 2 (d=3)" if tier == 'quick' else "4 (d<=2), 3 (d=3), 2 (d=4)", coordinates="n = d + 1",
                    outside="more blocks / requests; two distinct Point objects with equal decomposition receive distinct "
                            "blocks (not required to coincide by the property as read here)"))
