"""C09 - no real run of a modelled method on a real function beats the returned bound (split form).

The numeric SDP solve is the environment (KKT contract stub).  For every CERTIFIED bound tau the property then is
(1) C01's certificate identity - objective <= tau at every point that satisfies the sent constraints - and
(2) every real run is such a point.  This check decides (2) on the shipped example modules themselves: the real
`wc_*` function runs symbolically (symbolic parameters) up to and through the stubbed solve; every leaf of the model is
then given the value it has on a REAL run - a real member of each declared class (C03's families, symbolic shape
parameters), a symbolic starting point, gradients / values computed along the model's own point algebra, implicit steps
(prox, fixed and stationary points of sums) as hypotheses 'g is an admissible subgradient at x0 - gamma g'.  The initial
condition and the steps' side conditions are hypotheses; z3 proves that every class constraint and class LMI sent to the
solver holds on the run, and re-runs C01's identity on the example."""
import importlib
import itertools

import numpy as np

from vf import runner, pipeline
from vf.denote import den_point, den_expr, registered_functions
from vf.solverstub import CvxStub, MosekStub
from vf.refs import classes as R
from vf.props import c01


def setup_symbolic():
    pipeline.setup_symbolic()


def setup_concrete():
    pipeline.setup_concrete()


EXAMPLES = {
    'gradient_descent': ('unconstrained_convex_minimization.gradient_descent', 'wc_gradient_descent',
                         dict(L='L', gamma='gamma', n='n')),
    'heavy_ball': ('unconstrained_convex_minimization.heavy_ball_momentum', 'wc_heavy_ball_momentum',
                   dict(mu='mu', L='L', alpha='alpha', beta='beta', n='n')),
    'accelerated_gradient_convex': ('unconstrained_convex_minimization.accelerated_gradient_convex',
                                    'wc_accelerated_gradient_convex', dict(mu='mu', L='L', n='n')),
    'proximal_point': ('unconstrained_convex_minimization.proximal_point', 'wc_proximal_point', dict(gamma='gamma', n='n')),
    'proximal_gradient': ('composite_convex_minimization.proximal_gradient', 'wc_proximal_gradient',
                          dict(L='L', mu='mu', gamma='gamma', n='n')),
    'douglas_rachford': ('composite_convex_minimization.douglas_rachford_splitting', 'wc_douglas_rachford_splitting',
                         dict(L='L', alpha='alpha', theta='theta', n='n')),
    'douglas_rachford_contraction': ('composite_convex_minimization.douglas_rachford_splitting_contraction',
                                     'wc_douglas_rachford_splitting_contraction',
                                     dict(mu='mu', L='L', alpha='alpha', theta='theta', n='n')),
    'frank_wolfe': ('composite_convex_minimization.frank_wolfe', 'wc_frank_wolfe', dict(L='L', D='D', n='n')),
    'halpern': ('fixed_point_problems.halpern_iteration', 'wc_halpern_iteration', dict(n='n')),
    'proximal_point_operators': ('monotone_inclusions_variational_inequalities.proximal_point', 'wc_proximal_point',
                                 dict(alpha='alpha', n='n')),
    'optimistic_gradient': ('monotone_inclusions_variational_inequalities.optimistic_gradient', 'wc_optimistic_gradient',
                            dict(n='n', gamma='gamma', L='L')),
    'subgradient_method': ('unconstrained_convex_minimization.subgradient_method', 'wc_subgradient_method',
                           dict(M='M', n='n', gamma='gamma')),
    'gradient_descent_qg': ('unconstrained_convex_minimization.gradient_descent_qg_convex', 'wc_gradient_descent_qg_convex',
                            dict(L='L', gamma='gamma', n='n')),
    'krasnoselskii_mann': ('fixed_point_problems.krasnoselskii_mann_constant_step_sizes',
                           'wc_krasnoselskii_mann_constant_step_sizes', dict(n='n', gamma='gamma')),
    'three_operator_splitting': ('composite_convex_minimization.three_operator_splitting', 'wc_three_operator_splitting',
                                 dict(mu1='mu', L1='L', L3='L3', alpha='alpha', theta='theta', n='n')),
    'gradient_descent_lyapunov': ('potential_functions.gradient_descent_lyapunov_1', 'wc_gradient_descent_lyapunov_1',
                                  dict(L='L', gamma='gamma', n='n')),
}

POSITIVE = {'L', 'gamma', 'alpha', 'D', 'M', 'L3', 'A0'}


def family_for(env, f, idx, prefer=None):
    """real-member family of a leaf function, bound to the function's own (possibly symbolic) parameters"""
    key = R.CLASS_KEY_BY_NAME.get(type(f).__name__)
    if key is None:
        return None, None
    fams = R.FAMILIES[key]
    name, mk = fams[0]
    if prefer:
        for n_, m_ in fams:
            if n_ == prefer:
                name, mk = n_, m_
    fam = mk()
    if fam.dim != 1:
        return None, None
    p = {}
    for attr in ('mu', 'L', 'M', 'D', 'beta', 'rho'):
        if hasattr(f, attr):
            v = getattr(f, attr)
            p[attr] = None if (isinstance(v, float) and v == np.inf) else v
    fam.bind(pipeline_prefix(env, "f%d_" % idx), p)
    return key, fam


class pipeline_prefix:
    def __init__(self, env, prefix):
        self._env, self._p, self.sym = env, prefix, env.sym

    def real(self, name, **kw):
        return self._env.real(self._p + name, **kw)

    def choose(self, n, label=""):
        return self._env.choose(n, self._p + label)

    def __getattr__(self, n):
        return getattr(self._env, n)


class Run:
    """assignment of real values to the leaves of a model, following the model's own point algebra"""

    def __init__(self, env):
        self.env = env
        self.P = {}
        self.F = {}

    def leaf_point(self, p):
        if p not in self.P:
            self.P[p] = [self.env.real("pt%d" % p.counter)]
        return self.P[p]

    def leaf_expr(self, e):
        if e not in self.F:
            self.F[e] = self.env.real("fv%d" % e.counter)
        return self.F[e]

    def point(self, x):
        tot = 0
        for leaf, w in x.decomposition_dict.items():
            tot = tot + w * self.leaf_point(leaf)[0]
        return [tot]

    def expr(self, e):
        from PEPit import Expression
        tot = 0
        for key, w in e.decomposition_dict.items():
            if type(key) is tuple:
                tot = tot + w * self.leaf_point(key[0])[0] * self.leaf_point(key[1])[0]
            elif isinstance(key, Expression):
                tot = tot + w * self.leaf_expr(key)
            else:
                tot = tot + w
        return tot

    def unassigned_leaves(self, x):
        return [l for l in x.decomposition_dict if l not in self.P]


def assign_run(env, functions):
    """-> Run.  `functions`: list of (leaf function, family)."""
    run = Run(env)
    todo = []
    for fi, (f, fam) in enumerate(functions):
        lists = [f.list_of_points] + ([f.T.list_of_points] if hasattr(f, 'T') else [])
        for li, lst in enumerate(lists):
            for ti, t in enumerate(lst):
                todo.append((fi, f, fam, "%d_%d_%d" % (fi, li, ti), t))
    progress = True
    while todo and progress:
        progress = False
        rest = []
        for item in todo:
            fi, f, fam, tag, (x, g, fx) = item
            un = run.unassigned_leaves(x)
            own = [l for l in un if l is g]
            others = [l for l in un if l is not g]
            if others and not all(o.get_is_leaf() and len(x.decomposition_dict) == 1 for o in others):
                # x depends on leaves that another sample will define (e.g. the gradient of another function): wait
                rest.append(item)
                continue
            # x is a fresh free point (initial / stationary / fixed point), or depends only on its own (sub)gradient
            penv = pipeline_prefix(env, "f%d_" % fi)
            stationary = len(g.decomposition_dict) == 0
            if stationary and x.get_is_leaf() and x not in run.P and R.is_smooth_family(fam) and fam.has_min:
                run.P[x] = fam.argmin(penv)
            xv_known = not run.unassigned_leaves(x)
            if xv_known and g.get_is_leaf() and g not in run.P and R.is_smooth_family(fam):
                xv = run.point(x)
                run.P[g] = fam.grad(xv, penv, tag)          # explicit evaluation: substitute
                val = fam.value(xv)
            else:
                for l in g.decomposition_dict:
                    run.leaf_point(l)
                for l in x.decomposition_dict:
                    run.leaf_point(l)
                xv = run.point(x)
                gv = run.point(g)
                val = R.member(fam, xv, gv, penv, tag)       # implicit / determined: membership hypotheses
            if fx.get_is_leaf() and fx not in run.F:
                run.F[fx] = val
            else:
                env.assume(env.eq(run.expr(fx), val))
            progress = True
        todo = rest
    if todo:
        # circular dependencies (not expected): free symbols + membership
        for fi, f, fam, tag, (x, g, fx) in todo:
            penv = pipeline_prefix(env, "f%d_" % fi)
            val = R.member(fam, run.point(x), run.point(g), penv, tag)
            env.assume(env.eq(run.expr(fx), val))
    return run


_LAST_PEP = []


def _track_peps():
    from PEPit import pep as pepmod
    if getattr(pepmod.PEP, '_vf_tracked', False):
        return
    orig = pepmod.PEP.__init__

    def init(self, *a, **kw):
        orig(self, *a, **kw)
        _LAST_PEP.append(self)
    pepmod.PEP.__init__ = init
    pepmod.PEP._vf_tracked = True


def prog(env, case):
    from PEPit import Function
    name = case['example']
    modname, fname, argmap = EXAMPLES[name]
    mod = importlib.import_module("PEPit.examples." + modname)
    fn = getattr(mod, fname)
    tag = "C09:%s" % name
    _track_peps()
    if env.sym:
        stub = CvxStub(env).install()
        MosekStub(env).install()
    kwargs = {}
    for arg, sym in argmap.items():
        if sym == 'n':
            kwargs[arg] = case['n']
        elif sym == 'gammas':
            kwargs[arg] = [env.real("gamma%d" % i, lo=0, lo_strict=True) for i in range(case['n'])]
        else:
            kwargs[arg] = env.real(sym, lo=0, lo_strict=(sym in POSITIVE))
    if 'mu' in kwargs.values() or ('mu' in argmap.values() and 'L' in argmap.values()):
        pass
    vals = {argmap[a]: v for a, v in kwargs.items() if argmap[a] not in ('n', 'gammas')}
    if 'mu' in vals and 'L' in vals:
        env.assume(env.lt(vals['mu'], vals['L']))
    del _LAST_PEP[:]
    try:
        out = fn(wrapper="cvxpy", solver=None, verbose=-1, **kwargs)
    except ValueError as ex:
        if 'not a valid value' in str(ex):
            # the example validates its own parameter range (Krasnoselskii-Mann: gamma in [1/2, 1]): the values of this
            # path are outside the documented range
            from vf.engine import Abort
            raise Abort()
        raise
    tau = out[0]
    pep = _LAST_PEP[-1]
    # (1) the certificate identity on this very model ((2) and (3) are about the model and do not need a value: a replay
    #     in which the numeric solver reports "unbounded" still evaluates them)
    if env.sym and tau is None:
        return "no value"
    if env.sym:
        m = pipeline.Model()
        m.pep = pep
        c01.check_certificate(env, m, tau, stub, dict(fclass=name, backend='cvxpy'), kpool='kkt0', pid="C09")
    # (2) a real run is a feasible point of the model
    leaf_functions = [f for f in registered_functions() if f.get_is_leaf() and (f.list_of_points or hasattr(f, 'T'))]
    functions = []
    for idx, f in enumerate(leaf_functions):
        if not f.list_of_points and not f.list_of_class_constraints:
            continue
        key, fam = family_for(env, f, idx, prefer=case.get('family', {}).get(type(f).__name__))
        if fam is None:
            env.check(False, "no 1-D real-member family for class %s (harness limitation)" % type(f).__name__,
                      signature=tag + ":no-family")
            return "no family"
        functions.append((f, fam))
    run = assign_run(env, functions)
    # hypotheses: initial conditions and user constraints of the example, side conditions recorded by the steps
    hyp = list(pep.list_of_constraints)
    for f in registered_functions():
        hyp += list(f.list_of_constraints)
    for c in hyp:
        v = run.expr(c.expression)
        env.assume(env.le(v, 0) if c.equality_or_inequality == 'inequality' else env.eq(v, 0))
    n_claims = 0
    for f, fam in functions:
        for c in f.list_of_class_constraints:
            v = run.expr(c.expression)
            rel = '<=' if c.equality_or_inequality == 'inequality' else '=='
            env.check_rel(v, rel, "example %s: class constraint %s of %s is violated by a real run (n=%d)"
                          % (name, c.get_name(), type(f).__name__, case['n']),
                          signature=tag + ":" + type(f).__name__, timeout_ms=case.get('timeout_ms', 60000))
            n_claims += 1
        for li, psd in enumerate(f.list_of_class_psd):
            N = psd.shape[0]
            vs = [env.real("v%d_%d" % (li, i)) for i in range(N)]
            q = 0
            for i in range(N):
                for j in range(N):
                    q = q + vs[i] * vs[j] * run.expr(psd[i, j])
            env.check_rel(q, '>=', "example %s: class LMI of %s is violated by a real run" % (name, type(f).__name__),
                          signature=tag + ":lmi:" + type(f).__name__, timeout_ms=case.get('timeout_ms', 60000))
            n_claims += 1
    # (3) the model is the DOCUMENTED method: the metric's value on the run equals the performance of an independent run
    #     of the recurrences stated in the example's docstring, on the same real member from the same starting point
    if name in DOCUMENTED and pep.list_of_points and pep.list_of_performance_metrics:
        x0v = run.point(pep.list_of_points[0])[0]
        stat = [f_.list_of_stationary_points[0][0] for f_ in registered_functions() if f_.list_of_stationary_points]
        xsv = run.point(stat[0])[0] if stat else None
        ref = documented(name, vals, case['n'], functions[0][1], x0v, fams=[fm for _, fm in functions], xs=xsv,
                         starts=[run.point(p_)[0] for p_ in pep.list_of_points])
        got = run.expr(pep.list_of_performance_metrics[0])
        env.check_rel(got - ref, '==', "example %s (n=%d): the modelled method is not the documented one - the metric on a "
                      "real run differs from the documented recurrences' performance" % (name, case['n']),
                      signature=tag + ":documented-method", timeout_ms=case.get('timeout_ms', 60000))
        n_claims += 1
    env.reachable("real-run hypotheses")
    return "%s n=%d: %d constraints hold on every real run of the family" % (name, case['n'], n_claims)


DOCUMENTED = {'gradient_descent', 'gradient_descent_qg', 'heavy_ball', 'accelerated_gradient_convex', 'halpern',
              'krasnoselskii_mann', 'proximal_point', 'proximal_gradient', 'proximal_point_operators',
              'gradient_descent_lyapunov', 'douglas_rachford', 'three_operator_splitting',
              'douglas_rachford_contraction'}


def _prox_quad(fm, gamma, z):
    """proximal point of the 1-D member a/2 (x - c)^2 + b with step gamma at z"""
    return (z + gamma * fm.a * fm.c) / (1 + gamma * fm.a)


def documented(name, vals, n, fam, x0, fams=(), xs=None, starts=()):
    """performance of the method as the example's docstring states it (written from the docstrings, independently of the
    example bodies), on the 1-D real member `fam` started at x0"""
    G = lambda x: fam.grad([x], None, 'doc')[0]
    V = lambda x: fam.value([x])
    if name in ('gradient_descent', 'gradient_descent_qg'):
        # x_{t+1} = x_t - gamma f'(x_t);  f(x_n) - f_*
        x = x0
        for t in range(n):
            x = x - vals['gamma'] * G(x)
        return V(x) - V(fam.argmin(None)[0])
    if name == 'heavy_ball':
        # x_{t+1} = x_t - alpha f'(x_t) + beta (x_t - x_{t-1}), x_{-1} = x_0;  f(x_n) - f_*
        prev, x = x0, x0
        for t in range(n):
            prev, x = x, x - vals['alpha'] * G(x) + vals['beta'] * (x - prev)
        return V(x) - V(fam.argmin(None)[0])
    if name == 'accelerated_gradient_convex':
        # x_{t+1} = y_t - 1/L f'(y_t);  y_{t+1} = x_{t+1} + t/(t+3) (x_{t+1} - x_t);  f(x_n) - f_*
        x, y = x0, x0
        for t in range(n):
            xn = y - 1 / vals['L'] * G(y)
            y = xn + t / (t + 3) * (xn - x)
            x = xn
        return V(x) - V(fam.argmin(None)[0])
    if name == 'halpern':
        # x_{t+1} = 1/(t+2) x_0 + (1 - 1/(t+2)) A x_t;  ||x_n - A x_n||^2
        x = x0
        for t in range(n):
            x = 1 / (t + 2) * x0 + (1 - 1 / (t + 2)) * G(x)
        return (x - G(x)) * (x - G(x))
    if name == 'krasnoselskii_mann':
        # x_{t+1} = (1 - gamma) x_t + gamma A x_t;  ||(x_n - A x_n) / 2||^2
        x = x0
        for t in range(n):
            x = (1 - vals['gamma']) * x + vals['gamma'] * G(x)
        return (x - G(x)) * (x - G(x)) / 4
    if name == 'proximal_point':
        # x_{t+1} = prox_{gamma f}(x_t) = argmin_x gamma f(x) + |x - x_t|^2 / 2;  f(x_n) - f_*
        # on the member f(x) = a/2 (x - c)^2 + b the proximal point is (x_t + gamma a c) / (1 + gamma a)
        x = x0
        for t in range(n):
            x = (x + vals['gamma'] * fam.a * fam.c) / (1 + vals['gamma'] * fam.a)
        return V(x) - V(fam.argmin(None)[0])
    if name == 'proximal_gradient':
        # y_t = x_t - gamma f1'(x_t);  x_{t+1} = prox_{gamma f2}(y_t);  |x_n - x_*|^2 with x_* the declared minimiser of f1 + f2
        f1, f2 = fams[0], fams[1]
        x = x0
        for t in range(n):
            y = x - vals['gamma'] * f1.grad([x], None, 'doc')[0]
            x = (y + vals['gamma'] * f2.a * f2.c) / (1 + vals['gamma'] * f2.a)
        return (x - xs) * (x - xs)
    if name == 'proximal_point_operators':
        # x_{t+1} = (I + alpha A)^{-1} x_t;  |x_n - x_{n-1}|^2;  on the member A x = a x + b the resolvent is (x - alpha b)/(1 + alpha a)
        x, prev = x0, x0
        for t in range(n):
            prev, x = x, (x - vals['alpha'] * fam.b) / (1 + vals['alpha'] * fam.a)
        return (x - prev) * (x - prev)
    if name == 'gradient_descent_lyapunov':
        # V_k = k (f(x_k) - f_*) + L/2 |x_k - x_*|^2,  x_{n+1} = x_n - gamma f'(x_n);  V_{n+1} - V_n  (x0 plays x_n)
        xs_ = fam.argmin(None)[0]
        x1 = x0 - vals['gamma'] * G(x0)
        Vn = n * (V(x0) - V(xs_)) + vals['L'] / 2 * (x0 - xs_) * (x0 - xs_)
        Vn1 = (n + 1) * (V(x1) - V(xs_)) + vals['L'] / 2 * (x1 - xs_) * (x1 - xs_)
        return Vn1 - Vn
    if name == 'douglas_rachford':
        # x_t = prox_{alpha f2}(w_t);  y_t = prox_{alpha f1}(2 x_t - w_t);  w_{t+1} = w_t + theta (y_t - x_t);
        # F(y_{n-1}) - F(x_*), x_* the declared minimiser of f1 + f2
        f1, f2 = fams[0], fams[1]
        w = x0
        y = None
        for t in range(n):
            x = _prox_quad(f2, vals['alpha'], w)
            y = _prox_quad(f1, vals['alpha'], 2 * x - w)
            w = w + vals['theta'] * (y - x)
        return (f1.value([y]) + f2.value([y])) - (f1.value([xs]) + f2.value([xs]))
    if name == 'douglas_rachford_contraction':
        # x_t = prox_{alpha f2}(w_t);  y_t = prox_{alpha f1}(2 x_t - w_t);  w_{t+1} = w_t + theta (y_t - x_t), run from two
        # starting points;  |w_n - w'_n|^2   (f1 smooth strongly convex, f2 convex)
        f1, f2 = fams[0], fams[1]
        outs = []
        for w in starts[:2]:
            for t in range(n):
                x = _prox_quad(f2, vals['alpha'], w)
                y = _prox_quad(f1, vals['alpha'], 2 * x - w)
                w = w + vals['theta'] * (y - x)
            outs.append(w)
        return (outs[0] - outs[1]) * (outs[0] - outs[1])
    if name == 'three_operator_splitting':
        # x_t = prox_{alpha f2}(w_t);  y_t = prox_{alpha f1}(2 x_t - w_t - alpha f3'(x_t));  w_{t+1} = w_t + theta (y_t - x_t)
        # run from two starting points;  |w_n - w'_n|^2
        f1, f2, f3 = fams[0], fams[1], fams[2]
        outs = []
        for w in starts[:2]:
            for t in range(n):
                x = _prox_quad(f2, vals['alpha'], w)
                y = _prox_quad(f1, vals['alpha'], 2 * x - w - vals['alpha'] * f3.grad([x], None, 'doc')[0])
                w = w + vals['theta'] * (y - x)
            outs.append(w)
        return (outs[0] - outs[1]) * (outs[0] - outs[1])
    raise KeyError(name)


def cases(tier):
    cs = []
    quick = ['gradient_descent', 'heavy_ball', 'accelerated_gradient_convex', 'proximal_point', 'proximal_gradient',
             'douglas_rachford_contraction',
             'douglas_rachford', 'frank_wolfe', 'halpern', 'proximal_point_operators', 'optimistic_gradient',
             'subgradient_method']
    names = quick if tier == 'quick' else list(EXAMPLES)
    for nm in names:
        for n in ((1,) if tier == 'quick' else (1, 2)):
            if nm == 'three_operator_splitting' and n == 2:
                continue        # three 1-D quadratics, two runs, n = 2: z3 does not decide the class inequalities within 180 s
            cs.append(dict(id="%s-n%d" % (nm, n), example=nm, n=n, input_zero_tests='generic', output_branches='first',
                           timeout_ms=60000 if tier == 'quick' else 180000))
    # momentum terms only act from the second (heavy ball) / third (accelerated gradient) iterate on
    for nm, n in (('heavy_ball', 2), ('accelerated_gradient_convex', 3)):
        if not any(c['id'] == "%s-n%d" % (nm, n) for c in cs):
            cs.append(dict(id="%s-n%d" % (nm, n), example=nm, n=n, input_zero_tests='generic', output_branches='first',
                           timeout_ms=60000 if tier == 'quick' else 180000))
    return cs


def main(tier, only=None):
    cs = cases(tier)
    if only:
        cs = [c for c in cs if only in c['id']]
    return runner.run_property(
        "C09", tier, "vf.props.c09", cs, opts=dict(mode='fork', max_paths=20000, rationalize_floats=True),
        assumptions=["split form: the claim is 'for every CERTIFIED bound': (1) C01's identity on the example's own model under "
                     "the KKT contract + (2) every real run of the family is a feasible point of the model; the concrete "
                     "number a numeric solver returns (its tolerance) is outside",
                     "real runs follow the model's own update equations on 1-D members of C03's families; for %d explicit "
                     "examples (%s) the metric on the run is also proved equal to an independent run of the docstring's "
                     "recurrences - for the other examples a model of another method than documented is not detected"
                     % (len(DOCUMENTED), ", ".join(sorted(DOCUMENTED))),
                     "implicit steps are quantified over ALL admissible (sub)gradients (membership hypotheses)",
                     "float constants of the examples (1/(i+2), i/(i+3) ...) and the products the library forms from them in "
                     "binary64 are read as the small rationals they round (within 4 ulp, denominator <= 10^4): binary64 "
                     "rounding of coefficients is outside the claim"],
        bounds=dict(examples=len(cs), iterations="n = 1 (heavy ball 2, accelerated gradient 3)" if tier == 'quick' else "n <= 2 (three-operator splitting 1)", members="1-D families",
                    outside="other examples (those using numpy numerics on parameters, line searches, stochastic / "
                            "low-dimensional variants); n larger; members outside the families"))
