"""C02 - the primal output is a feasible, self-consistent instance.

Real code executed symbolically: PEP.solve (primal mode), _eval_points_and_function_values (eigh / sqrt / qr replaced by
their contracts), Point.eval, Expression.eval, Constraint.eval, PSDMatrix.eval, both wrappers' result extraction.
 (a) <value(p_i), value(p_j)> = G_psd[i,j] for all leaf pairs (no-clipping and clipping branch);
 (b) obj.eval() = [[obj]](values of the leaves) for objects built before and after the solve (points, products,
     constraints, LMIs);
 (c) every constraint sent evaluates to the solver's own row value at the returned (G, F) on the no-clipping branch, so
     the solver's primal feasibility transfers to PEPit's objects;
 (d) primal mode returns F[objective]; it is <= every metric and equal to one of them (complementary slackness);
 (e) primal <= dual from the KKT contract with PSD residual and PSD Gram (n = 2)."""
import numpy as np
import z3

from vf import runner, pipeline
from vf.engine import lift
from vf.denote import den_point, den_expr, dot
from vf.solverstub import CvxStub, MosekStub, psd_hypothesis


def setup_symbolic():
    pipeline.setup_symbolic()


def setup_concrete():
    pipeline.setup_concrete()


def default_values(case):
    return pipeline.default_values()


def tiny_model(env, spec):
    """two leaf points only (x0, g0): the Gram factorisation lemma is decidable for n = 2 in well under a second"""
    from PEPit import PEP
    from PEPit.functions import SmoothFunction
    m = pipeline.Model()
    pep = PEP()
    m.pep = pep
    L = env.real("L", lo=0, lo_strict=True)
    f = pep.declare_function(SmoothFunction, L=L)
    x0 = pep.set_initial_point()
    g0, f0 = f.oracle(x0)
    R = env.real("R", lo=0, lo_strict=True)
    c0 = (x0 ** 2 <= R)
    c1 = (g0 ** 2 <= L * L * (x0 ** 2))
    c2 = (f0 <= 1)
    pep.set_initial_condition(c0)
    pep.add_constraint(c1)
    pep.add_constraint(c2)
    m.constraints += [c0, c1, c2]
    gamma = env.real("gamma0")
    x1 = x0 - gamma * g0
    met = f0 + x1 * g0
    pep.set_performance_metric(met)
    m.metrics.append(met)
    if spec.get('metrics', 1) == 2:
        met2 = x1 ** 2
        pep.set_performance_metric(met2)
        m.metrics.append(met2)
    m.points = dict(x0=x0, x1=x1, g0=g0)
    m.exprs = dict(f0=f0)
    m.f = m.F = f
    return m


def held_objects(env, m, after):
    """objects a user may hold: derived points, products, constraints, an LMI - built before or after the solve"""
    from PEPit.psd_matrix import PSDMatrix
    pts = list(m.points.values())
    a = env.real("a_after" if after else "a_before")
    x, y = pts[0], pts[-1]
    objs = dict()
    objs['point-comb'] = x - a * y
    objs['expr-prod'] = (x - a * y) * y
    objs['expr-sq'] = (x + y) ** 2
    if m.exprs:
        e0 = list(m.exprs.values())[0]
        objs['expr-mixed'] = a * e0 + x * y - 1
        objs['constraint'] = (a * e0 + x * y <= 2)
        objs['lmi'] = PSDMatrix([[x ** 2, e0], [e0, 1]])
    return objs


def leaf_values():
    from PEPit import Point, Expression
    P = {p: list(p._value) for p in Point.list_of_leaf_points}
    F = {e: e._value for e in Expression.list_of_leaf_expressions}
    return P, F


def prog_postprocess(env, case):
    """_eval_points_and_function_values on an ARBITRARY symmetric 2x2 solver output (entries are inputs of the harness,
    so that also the zero tests on its eigenvalues are explored: rank-deficient and non-PSD outputs): the Gram matrix of
    the evaluated leaf points is the PSD projection V diag(max(w, 0)) V^T of that output, whatever the declaration order"""
    from PEPit import PEP, Point, Expression
    from vf import npshim
    tag = "C02:postprocess"
    pep = PEP()
    p0, p1 = Point(), Point()
    e0 = Expression()
    a, b, c = env.real("G00"), env.real("G01"), env.real("G11")
    f0 = env.real("F0")
    if env.sym:
        del npshim.LAST_EIGH[:]
        G = np.empty((2, 2), dtype=object)
        G[0, 0], G[0, 1], G[1, 0], G[1, 1] = a, b, b, c
        Fv = np.empty(1, dtype=object)
        Fv[0] = f0
    else:
        G = np.array([[a, b], [b, c]], dtype=float)
        Fv = np.array([f0], dtype=float)
    pep._eval_points_and_function_values(Fv, G, verbose=0)
    P = {p: list(p._value) for p in (p0, p1)}
    env.check_eq(e0._value, f0, "leaf expression does not carry the solver's value", signature=tag + ":F")
    if env.sym:
        from vf.engine import SymReal
        w_, V_, _ = npshim.LAST_EIGH[0]
        wpos = [SymReal(z3.If(w_[k].t >= 0, w_[k].t, z3.RealVal(0))) for k in range(2)]
        proj = [[sum(V_[i, k] * wpos[k] * V_[j, k] for k in range(2)) for j in range(2)] for i in range(2)]
    else:
        w, V = np.linalg.eigh(G)
        proj = (V * np.maximum(w, 0)) @ V.T
        env.tol = 1e-9 * (1 + float(np.abs(G).max()))
    for i, pi in enumerate((p0, p1)):
        for j, pj in enumerate((p0, p1)):
            if j < i:
                continue
            env.check_eq(dot(P[pi], P[pj]), proj[i][j], "inner product of the evaluated leaf points (%d,%d) is not the entry of "
                         "the PSD projection of the solver's Gram matrix" % (i, j), signature=tag + ":gram-projection",
                         pools=('linalg',), timeout_ms=120000)
    return "postprocess"


def prog(env, case):
    if case.get('kind') == 'postprocess':
        return prog_postprocess(env, case)
    from PEPit import Point, Expression
    spec = case['spec']
    backend = spec.get('backend', 'cvxpy')
    name = case['id'].rsplit('-', 1)[0]
    tag = "C02:%s:%s" % (backend, name)
    if env.sym:
        from vf import npshim as _shim
        del _shim.LAST_EIGH[:]
        stub = (MosekStub(env) if backend == 'mosek' else CvxStub(env))
        if backend == 'mosek':
            CvxStub(env).install()
        stub.install()
    elif backend == 'mosek':
        pipeline.enable_mosek_emulator()
    m = tiny_model(env, spec) if spec.get('tiny') else pipeline.build(env, spec)
    pep = m.pep
    before = held_objects(env, m, after=False)
    kw = {}
    if spec.get('dimred'):
        kw['dimension_reduction_heuristic'] = spec['dimred']
    tau, err = pipeline.safe_solve(env, pep, tag, wrapper=backend, verbose=0, return_primal_or_dual='primal', **kw)
    if err:
        return err
    if tau is None:
        return "no value"
    after = held_objects(env, m, after=True)
    n = Point.counter
    G = pep.G_value
    Fv = pep.F_value
    tol = 1e-6
    if not env.sym:
        env.tol = 5e-4
    P, F = leaf_values()
    dim = len(next(iter(P.values())))
    # which branch of the eigenvalue clipping did this path take?
    clipped = None
    if env.sym:
        for d in env.eng.decisions:
            if d[0] == 'b' and 'o.min!' in str(d[1]):
                st = str(z3.simplify(d[1])).replace(" ", "")
                # first comparison on a `min` symbol = `np.min(eig_val) < 0` in _eval_points_and_function_values
                cond_means_negative = st.startswith('Not(0<=') or st.startswith('0>') or ('<0' in st and not st.startswith('Not'))
                clipped = d[2] if cond_means_negative else (not d[2])
                break
    # ---- (a) Gram factorisation ----------------------------------------------------------------------------
    if spec.get('check_gram', False):
        if env.sym:
            if clipped is False:
                for i in range(n):
                    for j in range(i, n):
                        env.check_eq(dot(P[Point.list_of_leaf_points[i]], P[Point.list_of_leaf_points[j]]), G[i, j],
                                     "inner product of evaluated leaf points (%d,%d) differs from the solver's Gram entry"
                                     % (i, j), signature=tag + ":gram", pools=('linalg',), timeout_ms=120000)
            else:
                # clipping branch: Gram(values) = V diag(max(w,0)) V^T (the projection of G on the PSD cone), with (w, V)
                # the eigen-decomposition the code itself computed (also when clipped eigenvalues make it rank deficient)
                from vf import npshim
                from vf.engine import SymReal
                from vf.engine import lift as _lift

                def _is_G(Mx):
                    Mx = np.asarray(Mx)
                    return Mx.shape == (n, n) and all(_lift(Mx[i, j]) is not None and _lift(G[i, j]) is not None
                                                      and _lift(Mx[i, j]).eq(_lift(G[i, j]))
                                                      for i in range(n) for j in range(n))
                eig = [t for t in npshim.LAST_EIGH if _is_G(t[2])][:1]      # the decomposition of the Gram matrix itself
                if eig:
                    w_, V_, _ = eig[-1]
                    wpos = [SymReal(z3.If(w_[k].t >= 0, w_[k].t, z3.RealVal(0))) for k in range(n)]
                    for i in range(n):
                        for j in range(i, n):
                            proj = sum(V_[i, k] * wpos[k] * V_[j, k] for k in range(n))
                            env.check_eq(dot(P[Point.list_of_leaf_points[i]], P[Point.list_of_leaf_points[j]]), proj,
                                         "clipping branch: inner product of evaluated leaf points (%d,%d) is not the entry of "
                                         "the PSD projection V diag(max(w,0)) V^T of the solver's Gram matrix" % (i, j),
                                         signature=tag + ":gram-projection", pools=('linalg',), timeout_ms=120000)
                for i in range(n):
                    for j in range(i, n):
                        env.check(env.implies(psd_hypothesis(G),
                                              env.eq(dot(P[Point.list_of_leaf_points[i]], P[Point.list_of_leaf_points[j]]),
                                                     G[i, j])),
                                  "clipping branch: evaluated points do not reproduce a PSD Gram matrix entry (%d,%d)" % (i, j),
                                  signature=tag + ":gram-clipped", pools=('linalg',), timeout_ms=120000)
        else:
            Gn = np.asarray(G, dtype=float)
            w, V = np.linalg.eigh(Gn)
            Gpsd = (V * np.maximum(w, 0)) @ V.T
            for i in range(n):
                for j in range(i, n):
                    env.check(abs(float(np.dot(P[Point.list_of_leaf_points[i]], P[Point.list_of_leaf_points[j]]))
                                  - Gpsd[i, j]) <= 1e-6 * (1 + abs(Gpsd).max()),
                              "inner product of evaluated leaf points (%d,%d) differs from the PSD projection of the Gram "
                              "matrix" % (i, j), signature=tag + (":gram" if w.min() >= 0 else ":gram-clipped"))
    # ---- (a') the instance PEPit exposes is the solver's (last) solution, not a post-processed copy -------------------
    if env.sym:
        last = stub.solves[-1]
        for i in range(n):
            for j in range(i, n):
                ref = last.x[pep.wrapper.G.key((i, j))] if backend == 'cvxpy' else last.barx[0][i, j]
                env.check_eq(G[i, j], ref, "PEP.G_value is not the Gram matrix returned by the (last) solve",
                             signature=tag + ":instance-is-solution")
    else:
        Gl = np.asarray(pep.wrapper.optimal_G, dtype=float)
        env.check(np.abs(Gl - np.asarray(G, dtype=float)).max() <= 1e-6 * (1 + np.abs(Gl).max()),
                  "PEP.G_value is not the Gram matrix returned by the (last) solve", signature=tag + ":instance-is-solution")
    # ---- (b) eval() of every held object = denotation over the leaf values -----------------------------------
    from PEPit.psd_matrix import PSDMatrix
    from PEPit.constraint import Constraint
    for when, objs in (('before', before), ('after', after)):
        for nm, o in objs.items():
            sig = tag + ":eval-%s-%s" % (when, nm)
            if isinstance(o, Point):
                v = o.eval()
                ref = den_point(o, P, dim)
                for k in range(dim):
                    env.check_eq(v[k], ref[k], "Point.eval() differs from the combination of its leaves' values (%s)" % nm,
                                 signature=sig)
            elif isinstance(o, Expression):
                env.check_eq(o.eval(), den_expr(o, P, F), "Expression.eval() differs from the combination of its "
                             "operands' values (%s)" % nm, signature=sig)
            elif isinstance(o, Constraint):
                env.check_eq(o.eval(), den_expr(o.expression, P, F), "Constraint.eval() differs from its expression's "
                             "value (%s)" % nm, signature=sig)
            elif isinstance(o, PSDMatrix):
                v = o.eval()
                for i in range(o.shape[0]):
                    for j in range(o.shape[1]):
                        env.check_eq(v[i, j], den_expr(o[i, j], P, F), "PSDMatrix.eval() entry differs from its "
                                     "expression's value (%s)" % nm, signature=sig)
    for p in Point.list_of_leaf_points:
        env.check(p._value is not None and len(p._value) == dim, "a leaf point has no value after a successful solve",
                  signature=tag + ":leaf-value")
    for k, e in enumerate(Expression.list_of_leaf_expressions):
        env.check_eq(e.eval(), Fv[k], "leaf expression value is not the solver's F entry", signature=tag + ":leaf-F")
    # ---- (c) sent constraints evaluate to the solver's own row values (no-clipping branch) ---------------------
    sent = pep._list_of_constraints_sent_to_wrapper
    for c in sent:
        env.check_eq(c.eval(), den_expr(c.expression, P, F), "sent constraint's eval() differs from its expression's value",
                     signature=tag + ":sent-eval")
    if spec.get('check_gram', False) and env.sym and clipped is False:
        for c in sent[:4]:
            claim = env.le(c.eval(), 0) if c.equality_or_inequality == 'inequality' else env.eq(c.eval(), 0)
            env.check(claim, "a constraint sent to the solver does not hold at the returned instance although the solver's "
                             "row does (no clipping)", signature=tag + ":primal-feasible",
                      pools=('linalg', 'primal0'), timeout_ms=120000)
    if not env.sym:
        scale = 1 + max(abs(float(tau)), 1.0)
        for c in sent:
            v = float(c.eval())
            ok = v <= 2e-3 * scale if c.equality_or_inequality == 'inequality' else abs(v) <= 2e-3 * scale
            env.check(ok, "sent constraint violated at the returned instance: %g" % v, signature=tag + ":primal-feasible")
    # ---- (c'') every entry of every sent LMI, evaluated at the solver's (G, F), IS the entry of the PSD matrix variable the
    #      solver reports for that LMI (so the matrix as written is symmetric and PSD at the returned instance)
    if env.sym and pep._list_of_psd_sent_to_wrapper:
        from vf.denote import den_expr_gram
        sv = stub.solves[-1]
        if backend == 'cvxpy':
            import cvxpy as _cp
            Gvar, Fvar = pep.wrapper.G, pep.wrapper.F
            lmi_vars = [c.expr for c in sv.problem.constraints if c.kind == 'psd' and c.expr is not Gvar]
            Ms = [v._value for v in lmi_vars]
        else:
            Ms = [sv.barx[l + 1] for l in range(len(pep._list_of_psd_sent_to_wrapper))]
        Gd = {(p_, q_): G[p_.counter, q_.counter] for p_ in Point.list_of_leaf_points for q_ in Point.list_of_leaf_points}
        Fd = {e_: Fv[e_.counter] for e_ in Expression.list_of_leaf_expressions}
        for l, psd in enumerate(pep._list_of_psd_sent_to_wrapper):
            if l >= len(Ms):
                break
            for i in range(psd.shape[0]):
                for j in range(psd.shape[1]):
                    env.check_eq(den_expr_gram(psd[i, j], Gd, Fd), Ms[l][i, j], "entry (%d,%d) of a sent LMI, evaluated at the "
                                 "returned instance, is not the entry of the PSD matrix the solver reports for it (the matrix "
                                 "as written need not be symmetric / PSD there)" % (i, j), signature=tag + ":lmi-holds",
                                 pools=('primal%d' % (len(stub.solves) - 1),))
    if not env.sym:
        for psd in pep._list_of_psd_sent_to_wrapper:
            Mv = np.asarray(psd.eval(), dtype=float)
            sc_ = 1 + np.abs(Mv).max()
            env.check(np.abs(Mv - Mv.T).max() <= 2e-3 * sc_ and np.linalg.eigvalsh((Mv + Mv.T) / 2).min() >= -2e-3 * sc_,
                      "a sent LMI is not symmetric PSD at the returned instance: %s" % Mv.tolist(), signature=tag + ":lmi-holds")
    # ---- (d) the primal value ------------------------------------------------------------------------------------
    env.check_eq(tau, Fv[pep.objective.counter], "value returned in primal mode is not the objective leaf's value",
                 signature=tag + ":primal-value")
    mets = [met.eval() for met in m.metrics]
    if env.sym:
        pools = ('primal0', 'kkt0', 'cs0')
        if not spec.get('check_gram', False):
            # metrics contain inner products: relate them to the solver's G only through (a); here the claim is made on
            # the solver's own row values
            rows = [rv for (_, rv) in _metric_rows(stub, len(m.metrics))]
            for rv in rows:
                env.check(env.le(rv, 0), "objective exceeds a metric at the optimum", signature=tag + ":tau-le-metric",
                          pools=pools)
            env.check(env.disj([env.eq(rv, 0) for rv in rows]), "objective is not equal to any metric at the optimum "
                      "(complementary slackness)", signature=tag + ":tau-is-min", pools=pools, timeout_ms=60000)
    else:
        env.check(abs(float(tau) - min(float(v) for v in mets)) <= 5e-3 * (1 + abs(float(tau))),
                  "primal value %g is not the smallest metric %s" % (float(tau), [float(v) for v in mets]),
                  signature=tag + ":tau-is-min")
    # ---- (e) primal <= dual -----------------------------------------------------------------------------------
    if env.sym and spec.get('check_weak_duality', False):
        from vf.props.c01 import residue
        res = residue(pep)
        dual = res.get('c', 0)
        sv = stub.solves[0]
        hyp = [psd_hypothesis(M) for _, M in sv.psd_dual]
        hyp += [psd_hypothesis(X) for _, X in getattr(sv, 'psd_primal', [])]
        if backend == 'mosek':
            hyp += [psd_hypothesis(X) for X in sv.barx]
        r, mm = env.eng.valid(env.le(tau, dual), ('primal0', 'kkt0'), extra=hyp, timeout_ms=120000)
        env.claims += 1
        if r == 'unsat':
            env.proved += 1
        elif r == 'sat':
            env.check(env.le(tau, dual), "primal value exceeds the dual bound under the solver contract",
                      signature=tag + ":weak-duality", pools=('primal0', 'kkt0'))
        else:
            env.inconclusive.append("weak duality query (n=%d)" % n)
    elif not env.sym:
        pass
    env.reachable("C02", pools=('primal0', 'kkt0'))
    return "tau=%s clipped=%s" % (tau, clipped)


def _metric_rows(stub, nmetrics):
    sv = stub.solves[0]
    if hasattr(sv, 'row_values'):
        return sv.row_values[:nmetrics]
    return [(None, sv.rows[i] - sv.task.conbound[i][2]) for i in range(nmetrics)]


def cases(tier):
    cs = []

    def add(name, both=True, backends=('cvxpy', 'mosek'), **kw):
        s = dict(fclass='ssc', steps=['grad'], cons=[], lmis=[], metrics=1)
        s.update(kw)
        for be in backends:
            s2 = dict(s)
            s2['backend'] = be
            cs.append(dict(id="%s-%s" % (name, be), spec=s2, input_zero_tests='generic',
                           output_branches='both' if kw.get('check_gram') else 'first'))

    cs.append(dict(id="postprocess-2x2", kind='postprocess', spec={}, fork_outputs=True, output_branches='both',
                   input_zero_tests='fork'))
    add("tiny", tiny=True, check_gram=True, metrics=1, check_weak_duality=True)
    add("tiny-2metrics", tiny=True, check_gram=False, metrics=2)
    add("gd", metrics=2)
    add("gd-lmi", lmis=['sym2'])
    add("gd-lmi-nonsym", lmis=['nonsym2'])
    add("convex-prox", fclass='convex', steps=['prox'], metrics=2)
    add("qg-late-leaf", fclass='qg', stationary=False)
    add("gd-trace", dimred='trace')
    add("gd-logdet1", dimred='logdet1', backends=('cvxpy',))
    if tier == 'thorough':
        add("quad", fclass='quad')
        add("gd2-cons", steps=['grad', 'grad'], cons=['le', 'eq'])
        add("composite", second='convex', steps=['grad', 'prox'])
    return cs


def main(tier, only=None):
    cs = cases(tier)
    if only:
        cs = [c for c in cs if only in c['id']]
    return runner.run_property(
        "C02", tier, "vf.props.c02", cs, opts=dict(mode='fork', max_paths=5000, assert_timeout_ms=120000),
        assumptions=["np.linalg.eigh / np.sqrt / np.linalg.qr replaced by their documented contracts over fresh symbols "
                     "(V diag(w) V^T = S, V^T V = I; s >= 0, s^2 = w; R upper triangular, R^T R = A^T A)",
                     "solver = KKT contract stub incl. complementary slackness for claim (d)",
                     "(c) is decided on the no-clipping branch; with clipping the gap is bounded by the clipped mass "
                     "(not quantified here)"],
        bounds=dict(gram_factorisation_n=2, models=len(cs),
                    outside="Gram factorisation lemma for n >= 3 (z3 did not finish within 15 min in this harness); solver "
                            "tolerance"))
