"""C01 - the returned bound is backed by a complete dual certificate.

The real PEP.solve / wrapper / check_feasibility code runs on a symbolic model; the SDP solver is the KKT contract
stub.  z3 must prove, from the stub's stationarity equations only, that the multipliers PEPit exposes
(Constraint.eval_dual, PSDMatrix.eval_dual, PEP.residual) make every non-constant coefficient of
  objective - sum lambda_c c.expression + <residual, Gram> + sum <Z_m, M_m>
vanish, that its constant is the value returned in dual mode, and that the sign conditions hold."""
import numpy as np

from vf import runner, pipeline
from vf.denote import canon
from vf.solverstub import CvxStub, MosekStub


def setup_symbolic():
    pipeline.setup_symbolic()


def setup_concrete():
    pipeline.setup_concrete()


def residue(pep):
    """coefficient map of objective - sum lambda c + <S,G> + sum <Z, M> (independent of check_feasibility)"""
    out = {}

    def add(cm, w):
        for k, v in cm.items():
            out[k] = out[k] + w * v if k in out else w * v

    add(canon(pep.objective), 1)
    for c in pep._list_of_constraints_sent_to_wrapper:
        add(canon(c.expression), -c.eval_dual())
    S = pep.residual
    n = S.shape[0]
    for i in range(n):
        for j in range(n):
            k = ('G', min(i, j), max(i, j))
            out[k] = out[k] + S[i, j] if k in out else S[i, j]
    for psd in pep._list_of_psd_sent_to_wrapper:
        # the library exposes, per LMI, the PSD dual matrix (eval_dual) and - documented attribute
        # entries_dual_variable_value - the multipliers of its entries, whose symmetric part is that matrix; the
        # identity is stated with the entry multipliers when they are provided
        Z = getattr(psd, 'entries_dual_variable_value', None)
        if Z is None:
            Z = psd.eval_dual()
        for i in range(psd.shape[0]):
            for j in range(psd.shape[1]):
                add(canon(psd[i, j]), Z[i, j])
    return out


def lmi_kind(spec):
    return "+".join(spec.get('lmis', [])) or "none"


def check_certificate(env, m, tau, stub, spec, kpool='kkt0', pid="C01"):
    """the C01 assertion, reused by C11/C13/C14"""
    pep = m.pep
    backend = spec.get('backend', 'cvxpy')
    tag = "%s:%s:%s:lmi=%s" % (pid, backend, spec['fclass'], lmi_kind(spec))
    sv = stub.solves[int(kpool[3:])]
    sent = pep._list_of_constraints_sent_to_wrapper
    # one multiplier per sent constraint / LMI
    ok = True
    for c in sent:
        if c._dual_variable_value is None:
            ok = False
    for psd in pep._list_of_psd_sent_to_wrapper:
        if psd._dual_variable_value is None:
            ok = False
    env.check(ok, "a constraint / LMI sent to the solver has no multiplier after a successful solve",
              signature=tag + ":missing-multiplier")
    if not ok:
        return
    env.check(pep.residual is not None and pep.residual.shape == (len(pep_leaf_points()), len(pep_leaf_points())),
              "residual has the wrong shape", signature=tag + ":residual-shape")
    res = residue(pep)
    # every non-constant coefficient must vanish.  One aggregated verdict per model whose signature names the kinds of
    # coefficients (G = Gram entries, F = function values) that can be non-zero, so that a known finding of one kind
    # does not hide a new defect of another kind.
    bad = []
    for k, v in res.items():
        if k == 'c':
            continue
        env.claims += 1
        r, _ = env.eng.valid(env.eq(v, 0), (kpool,))
        if r == 'unsat':
            env.proved += 1
        elif r == 'unknown':
            env.inconclusive.append("certificate coefficient %s" % (k,))
        else:
            bad.append(k)
    if bad:
        kinds = "".join(sorted({k[0] for k in bad}))
        k0 = bad[0]
        env.check_eq(res[k0], 0, "certificate identity: coefficient of %s does not vanish "
                                 "(objective - sum lambda*constraint + <S,G> + sum <Z,M>); failing keys: %s" % (k0, bad[:6]),
                     signature=tag + ":identity:" + kinds, pools=(kpool,), detail=dict(keys=[str(k) for k in bad]),
                     model_pools=(kpool.replace("kkt", "primal"),))
    if spec.get('return', 'dual') == 'dual':
        env.check_eq(res.get('c', 0), tau, "value returned in dual mode is not the constant of the certificate identity",
                     signature=tag + ":dual-value", pools=(kpool,))
        # under the solver's strong-duality contract the certified bound equals the primal optimum it reports
        gp = kpool.replace("kkt", "gap")
        if not spec.get('dimred'):     # (after a dimension reduction the objective leaf holds the last solve: C14)
            env.check_eq(tau, pep.objective.eval(), "dual bound differs from the primal optimum although the solver reports "
                     "a zero duality gap for the problem it was given (the certificate is for another problem)",
                         signature=tag + ":gap", pools=(kpool, gp))
    # signs
    for c in sent:
        if c.equality_or_inequality == 'inequality':
            env.check(env.ge(c.eval_dual(), 0), "multiplier of an inequality constraint is not >= 0 under the solver's "
                      "sign conditions", signature=tag + ":sign", pools=(kpool,), strong_neg=env.le(c.eval_dual(), -0.125))
    certified = [M for _, M in sv.psd_dual]
    used = set()
    for name, Z in [('residual', pep.residual)] + [('lmi%d' % i, p.eval_dual()) for i, p in
                                                   enumerate(pep._list_of_psd_sent_to_wrapper)]:
        hit = None
        for ci, C in enumerate(certified):
            if ci in used or C.shape != Z.shape:
                continue
            if all(_same(env, Z[i, j], C[i, j]) for i in range(Z.shape[0]) for j in range(Z.shape[1])):
                hit = ci
                break
        if hit is not None:
            used.add(hit)
        env.check(hit is not None, "%s multiplier is not one of the matrices the solver contract certifies PSD" % name,
                  signature=tag + ":psd-" + ('residual' if name == 'residual' else 'lmi'))
    env.reachable("C01 hypotheses", pools=(kpool,))


def _same(env, a, b):
    from vf.engine import lift
    import z3
    la, lb = lift(a), lift(b)
    if la is None or lb is None:
        return False
    d = z3.simplify(la - lb)
    return z3.is_rational_value(d) and d.numerator_as_long() == 0


def pep_leaf_points():
    from PEPit import Point
    return Point.list_of_leaf_points


def prog(env, case):
    spec = case['spec']
    backend = spec.get('backend', 'cvxpy')
    if env.sym:
        stub = (MosekStub(env) if backend == 'mosek' else CvxStub(env))
        if backend == 'mosek':
            CvxStub(env).install()
        stub.install()
    elif backend == 'mosek':
        pipeline.enable_mosek_emulator()
    m = pipeline.build(env, spec)
    kw = dict(wrapper=backend, verbose=spec.get('verbose', 0), return_primal_or_dual=spec.get('return', 'dual'))
    if spec.get('dimred'):
        kw['dimension_reduction_heuristic'] = spec['dimred']
    tau, err = pipeline.safe_solve(env, m.pep, "C01:%s:%s" % (backend, case['id'].rsplit('-', 1)[0]), **kw)
    if err:
        return err
    if not env.sym:
        return concrete_check(env, m, tau, spec)
    if tau is None:
        return "no value"
    check_certificate(env, m, tau, stub, spec)
    return "tau=%s" % (tau,)


def concrete_check(env, m, tau, spec, pid="C01"):
    """Replay: evaluate the same certificate numerically on the real solver's output (tolerance: solver accuracy)."""
    pep = m.pep
    backend = spec.get('backend', 'cvxpy')
    tag = "%s:%s:%s:lmi=%s" % (pid, backend, spec['fclass'], lmi_kind(spec))
    if tau is None:
        return "no value"
    env.tol = 2e-3
    ok = all(c._dual_variable_value is not None for c in pep._list_of_constraints_sent_to_wrapper) and \
        all(p._dual_variable_value is not None for p in pep._list_of_psd_sent_to_wrapper)
    env.check(ok, "missing multiplier", signature=tag + ":missing-multiplier")
    if not ok:
        return
    res = residue(pep)
    scale = 1 + max([abs(float(c.eval_dual())) for c in pep._list_of_constraints_sent_to_wrapper] + [0])
    bad = [(k, float(v)) for k, v in res.items() if k != 'c' and abs(float(v)) > 2e-3 * scale]
    env.claims += len(res)
    if bad:
        kinds = "".join(sorted({k[0] for k, _ in bad}))
        env.check(False, "certificate identity: non-vanishing coefficients %s" % (bad[:6],),
                  signature=tag + ":identity:" + kinds, detail=dict(keys=[(str(k), v) for k, v in bad[:12]]))
    if spec.get('return', 'dual') == 'dual':
        env.check(abs(float(res.get('c', 0)) - float(tau)) <= 2e-3 * scale, "dual value != constant of the identity",
                  signature=tag + ":dual-value")
    if spec.get('return', 'dual') == 'dual' and not spec.get('dimred'):
        env.check(abs(float(tau) - float(pep.objective.eval())) <= 5e-3 * (1 + abs(float(tau))),
                  "dual bound %g differs from the primal optimum %g" % (float(tau), float(pep.objective.eval())),
                  signature=tag + ":gap")
    for c in pep._list_of_constraints_sent_to_wrapper:
        if c.equality_or_inequality == 'inequality':
            env.check(float(c.eval_dual()) >= -2e-3 * scale, "negative multiplier on an inequality",
                      signature=tag + ":sign")
    for name, Z in [('residual', pep.residual)] + [('lmi', p.eval_dual()) for p in pep._list_of_psd_sent_to_wrapper]:
        w = np.linalg.eigvalsh((np.asarray(Z, dtype=float) + np.asarray(Z, dtype=float).T) / 2)
        env.check(w.min() >= -2e-3 * scale, "%s multiplier is not PSD (min eig %g)" % (name, w.min()),
                  signature=tag + ":psd-" + name)
    return "tau=%s" % tau


def signature_matches(recorded, observed):
    """identity signatures end with the kinds of failing coefficients: the concrete run may show a subset"""
    if ":identity:" in recorded and ":identity:" in observed:
        r0, rk = recorded.rsplit(":", 1)
        o0, ok = observed.rsplit(":", 1)
        return r0 == o0 and set(ok) <= set(rk) and len(ok) > 0
    return recorded == observed


def default_values(case):
    return pipeline.default_values()


BASE = dict(fclass='ssc', steps=['grad'], cons=[], lmis=[], metrics=1)


def specs(tier):
    out = []

    def add(name, **kw):
        s = dict(BASE)
        s.update(kw)
        for be in ('cvxpy', 'mosek'):
            s2 = dict(s)
            s2['backend'] = be
            c = dict(id="%s-%s" % (name, be), spec=s2)
            if s2.pop('izt', None):
                c['input_zero_tests'] = 'fork'     # parameter zero sets explored instead of assumed away
            if s2.get('dimred') or s2.get('verbose'):
                # the eigenvalue-threshold / message-selection comparisons of these configurations multiply into tens of
                # thousands of paths when both sides are explored: always the 'first' cut here (see DESIGN 9.2)
                c['output_branches'] = 'first'
            out.append(c)

    add("gd")
    add("gd-verbose", verbose=1)
    add("gd-verbose2", verbose=2)
    add("gd-2metrics", metrics=2)
    add("gd-cons", cons=['le', 'ge', 'eq', 'rle'])
    add("gd-lmi-sym", lmis=['sym2'])
    add("gd-lmi-nonsym", lmis=['nonsym2'])
    add("gd-lmi-mirrored", lmis=['nonsym2b'])
    add("gd-lmi-nonsym-constants", lmis=['nonsym-const'])
    add("gd-lmi-one", lmis=['one'])
    add("convex-prox", fclass='convex', steps=['prox'], metrics=2)
    add("scl-grad", fclass='scl')
    add("quad-grad", fclass='quad')
    add("symlin-grad", fclass='symlin', value_metric=False)
    add("inexact", steps=['inexact'])
    add("gd-trace", dimred='trace')
    add("function-lmi", function_lmi=True)
    add("composite-function-lmi", second='convex', steps=['grad', 'prox'], function_lmi='composite',
        function_lmi_with_constraint=True)
    add("qg-late-leaf", fclass='qg', stationary=False)
    add("partition", partition=2)
    if tier == 'thorough':
        add("gd2", steps=['grad', 'grad'])
        add("gd-lmi-two", lmis=['sym2', 'one'])
        add("gd-lmi-two-objects-reversed", lmis=['sym2', 'one'], lmi_objects=True, lmi_reversed=True)
        add("gd-lmi-three", lmis=['three'])
        add("composite", second='convex', steps=['grad', 'prox'])
        add("gd-forked-zero-tests", izt='fork')
        add("gd-lmi-forked-zero-tests", lmis=['sym2'], izt='fork')
        add("linop", fclass='linop', value_metric=False)
        add("partition3", partition=3)
        add("gd-cons-lmi-verbose", cons=['le', 'eq'], lmis=['sym2'], verbose=1)
        add("gd-primal", **{'return': 'primal'})
        add("skew", fclass='skew', value_metric=False)
        # one gradient-step model per remaining shipped class (operators: metric on points only)
        operators = ('monotone', 'strmono', 'coco', 'lipop', 'nonexp', 'cocostr', 'lipstr', 'negcomo')
        for key in ('sc', 'strongly', 'lipschitz', 'smooth', 'indicator', 'support', 'rsi') + operators:
            # RsiEb conditions do not involve function values: a value metric would be unbounded (no KKT point)
            add("class-" + key, fclass=key, **(dict(value_metric=False) if key in operators + ('rsi',) else {}))
    return out


def main(tier, only=None):
    cs = specs(tier)
    if only:
        cs = [c for c in cs if only in c['id']]
    return runner.run_property(
        "C01", tier, "vf.props.c01", cs,
        opts=dict(max_paths=20000, assert_timeout_ms=60000, output_branches='first' if tier == 'quick' else 'both',
                  input_zero_tests='generic'),
        assumptions=["SDP solver = contract stub: returns ANY primal-dual pair satisfying primal feasibility, Lagrangian "
                     "stationarity and dual sign conditions (cvxpy conventions validated against real cvxpy/SCS; MOSEK "
                     "conventions from the manual, not validated: MOSEK is not installed)",
                     "zero tests on coefficients containing solver-output symbols are not forked (key kept)"],
        bounds=dict(models=len(cs), samples_per_function="<=3", lmi_size="<=2 (3 thorough)",
                    outside="models beyond the generator; float rounding; numerical quality of the solver"),
    )
