"""C04 - class constraints are complete and independent of the declaration order.

For every class, every history of <= 3 (quick) / 4 (thorough) declarations drawn from {oracle at a new point, oracle at an
existing point (second subgradient for non-differentiable classes), stationary_point(), fixed_point()} is executed on the
real Function code with symbolic class parameters; the generated constraints are then compared, as affine forms with
symbolic coefficients, with the documented conditions instantiated on every REQUIRED pair of the distinct recorded
samples (vf/refs/classes.py): each required pair must be matched by a generated constraint (up to positive scaling), each
non-trivial generated constraint by a required pair, each class LMI entry-wise."""
import z3

from vf import runner, pipeline
from vf.engine import lift
from vf.denote import canon
from vf.refs.classes import reference, ALL_KEYS
from vf.props.c03 import declare, _cond_name


def setup_symbolic():
    from vf import npshim
    npshim.install()


def default_values(case):
    return pipeline.default_values()


def _is_zero(env, v):
    lv = lift(v)
    if lv is None:
        return False
    s = z3.simplify(lv)
    if z3.is_rational_value(s):
        return s.numerator_as_long() == 0
    if not env.sym:
        return abs(float(v)) < 1e-12
    r, _ = env.eng.valid(lv == 0)
    return r == 'unsat'


def _provably(env, claim):
    if not env.sym:
        return bool(claim)
    r, _ = env.eng.valid(claim)
    return r == 'unsat'


def same_form(env, g, r, equality):
    """g = k * r with k > 0 (inequalities) / k != 0 (equalities); coefficient maps from canon()"""
    keys = list(set(g) | set(r))
    if env.sym:
        diffs = [lift(g.get(k, 0)) - lift(r.get(k, 0)) for k in keys]
        if all(z3.is_rational_value(z3.simplify(d)) and z3.simplify(d).numerator_as_long() == 0 for d in diffs):
            return True
        if _provably(env, z3.And(*[d == 0 for d in diffs])):
            return True
        if equality:
            diffs = [lift(g.get(k, 0)) + lift(r.get(k, 0)) for k in keys]
            if _provably(env, z3.And(*[d == 0 for d in diffs])):
                return True
        # proportional with a positive factor: pick a key where the reference coefficient is provably non-zero
        for k0 in keys:
            r0 = lift(r.get(k0, 0))
            if _provably(env, r0 != 0):
                g0 = lift(g.get(k0, 0))
                cross = [lift(g.get(k, 0)) * r0 == g0 * lift(r.get(k, 0)) for k in keys]
                sign = (g0 * r0 > 0) if not equality else (g0 != 0)
                return _provably(env, z3.And(sign, *cross))
        return False
    # concrete
    import numpy as np
    gv = np.array([float(g.get(k, 0)) for k in keys])
    rv = np.array([float(r.get(k, 0)) for k in keys])
    if np.allclose(gv, rv, atol=1e-9):
        return True
    if np.abs(rv).max() < 1e-12:
        return np.abs(gv).max() < 1e-12
    k = int(np.argmax(np.abs(rv)))
    s = gv[k] / rv[k]
    if (s <= 0 and not equality) or s == 0:
        return False
    return np.allclose(gv, s * rv, atol=1e-9 * (1 + abs(s)))


def trivial(env, cm):
    return all(_is_zero(env, v) for v in cm.values())


def run_history(env, f, key, case):
    """draw and execute a declaration history; returns a readable trace"""
    from PEPit import Point
    length = case['length']
    forced = list(case.get('forced', []))
    pts = []
    trace = []
    n_ops = 5

    def ch(n, label):
        if forced:
            d = forced.pop(0)
            if d >= n:
                from vf.engine import Abort
                raise Abort()
            return d
        return env.choose(n, label)

    for step in range(length):
        op = ch(n_ops + 1, 'op')      # the extra value = stop (shorter histories)
        if op == n_ops:
            trace.append('stop')
            break
        n_before = len(f.list_of_points)
        ids_before = [id(t[0]) for t in f.list_of_points]
        if op == 0:
            x = Point()
            pts.append(x)
            f.oracle(x)
            trace.append('oracle(new)')
        elif op == 1:
            if not pts:
                from vf.engine import Abort
                raise Abort()
            k = ch(len(pts), 'which') if len(pts) > 1 else 0
            f.oracle(pts[k])
            trace.append('oracle(x%d again)' % k)
        elif op == 2:
            f.stationary_point()
            trace.append('stationary_point()')
        elif op == 3:
            x, _, _ = f.fixed_point()
            pts.append(x)
            trace.append('fixed_point()')
        elif op == 4:
            if key in ('linop', 'quad'):
                from vf.engine import Abort
                raise Abort()
            (2 * f).stationary_point()         # the optimum is declared on a rescaled copy: f receives (x*, 0, f*)
            trace.append('(2*f).stationary_point()')
        # every declaration of a NEW point / stationary point / fixed point records a new sample at a new point (the
        # quadratic class documents a unique stationary point; a repeated oracle call on a differentiable class is reused)
        if op in (0, 2, 3, 4) and not (key == 'quad' and op in (2, 4)):
            grew = len(f.list_of_points) == n_before + 1 and id(f.list_of_points[-1][0]) not in ids_before
            env.check(grew, "history %s: the declaration did not record a new sample at a new point (%d -> %d samples)"
                      % (trace, n_before, len(f.list_of_points)), signature="C04:%s:sample-not-recorded:op%d" % (key, op))
    if key == 'linop':
        u = Point()
        f.T.oracle(u)
        trace.append('T.oracle(new)')
    return trace


def generate_and_match(env, key, case):
    """-> dict(f, p, ref, matches {ref index -> generated constraint}, missing [...], extra [...], trace)"""
    from PEPit import PEP
    pep = PEP()
    f, p = declare(env, pep, key, case.get('spec', {}))
    if key == 'nonexp' and case.get('forced', [0])[0] == 0:
        from PEPit import Point as _P
        f.v = _P()                   # infimal displacement vector declared: one more documented condition per sample
    if case.get('named'):
        # (a LaTeX-like name with a brace group every third case: legal, and must survive name formatting)
        f.set_name("phi_{1}" if case.get('named') == 'braces' else "phi")
    trace = run_history(env, f, key, case)
    if case.get('named'):
        for k, t in enumerate(f.list_of_points):
            if t[0].get_name() is None and k % 2 == 0:
                t[0].set_name("pt%d" % k)
    r = rematch(env, key, f, p)
    r.update(trace=trace, pep=pep)
    return r


def rematch(env, key, f, p):
    """(re)generate the class constraints of f as a solve does and match them against the documented conditions"""
    npts_before = len(f.list_of_points)
    f.set_class_constraints()
    ref = reference(key, f, p)
    gens = list(f.list_of_class_constraints)
    gforms = [dict(canon(c.expression)) for c in gens]
    used = [False] * len(gens)
    matches = {}
    missing = []
    trivial_refs = set()
    for ri, (name, samples, rc) in enumerate(ref['scalar']):
        rform = dict(canon(rc.expression))
        req = rc.equality_or_inequality == 'equality'
        if trivial(env, rform):
            trivial_refs.add(ri)
            continue
        hit = None
        for gi, c in enumerate(gens):
            if used[gi] or (c.equality_or_inequality == 'equality') != req:
                continue
            if same_form(env, gforms[gi], rform, req):
                hit = gi
                break
        if hit is None:
            missing.append((name, samples, rc))
        else:
            used[hit] = True
            matches[ri] = gens[hit]
    extra = [gens[gi] for gi in range(len(gens)) if not used[gi] and not trivial(env, gforms[gi])]
    return dict(f=f, p=p, ref=ref, matches=matches, missing=missing, extra=extra,
                trivial_refs=trivial_refs,
                npts_before=npts_before)


def sample_label(f, t):
    idx = [k for k, s in enumerate(f.list_of_points) if s is t]
    kind = 'stationary' if len(t[1].decomposition_dict) == 0 else ('fixed' if t[0] is t[1] else 'sample')
    return "%s#%s" % (kind, idx[0] if idx else '?')


def prog(env, case):
    key = case['cls']
    r = generate_and_match(env, key, case)
    f, ref = r['f'], r['ref']
    tag = "C04:%s" % key
    for name, samples, rc in r['missing'][:1]:
        shape = "x".join(sorted(sample_label(f, t).split('#')[0] for t in samples))
        env.check(False, "history %s: no generated constraint is the documented condition '%s' for the pair (%s)"
                  % (r['trace'], name, ", ".join(sample_label(f, t) for t in samples)),
                  signature="%s:missing:%s:%s" % (tag, name, shape), detail=dict(n_missing=len(r['missing'])))
    for c in r['extra'][:1]:
        env.check(False, "history %s: generated constraint %s matches no documented condition on a required pair"
                  % (r['trace'], c.get_name()), signature="%s:extra:%s" % (tag, _cond_name(c.get_name() or 'unnamed')),
                  detail=dict(n_extra=len(r['extra'])))
    if not r['missing'] and not r['extra']:
        env.claims += 1
        env.proved += 1
    # LMIs
    gl = list(f.list_of_class_psd)
    env.check(len(gl) == len(ref['lmis']), "history %s: %d class LMIs generated, %d documented" % (r['trace'], len(gl),
                                                                                                len(ref['lmis'])),
              signature=tag + ":lmi-count")
    for li, (G, R) in enumerate(zip(gl, ref['lmis'])):
        n = len(R)
        ok_shape = G.shape == (n, n)
        env.check(ok_shape, "class LMI %d has shape %s for %d samples" % (li, G.shape, n), signature=tag + ":lmi-shape")
        if not ok_shape:
            continue
        for transposed in (False, True):
            ok = True
            for i in range(n):
                for j in range(n):
                    g = dict(canon(G[j, i] if transposed else G[i, j]))
                    rf = dict(canon(R[i][j]))
                    if not same_form(env, g, rf, True) or not _same_sign(env, g, rf):
                        ok = False
                        break
                if not ok:
                    break
            if ok:
                break
        env.check(ok, "history %s: class LMI %d differs from the documented matrix" % (r['trace'], li),
                  signature=tag + ":lmi-entries")
    return r['trace']


def _same_sign(env, g, rf):
    """entries must be equal, not merely proportional (same_form(equality=True) accepts a sign flip)"""
    keys = set(g) | set(rf)
    if env.sym:
        return _provably(env, z3.And(*[lift(g.get(k, 0)) == lift(rf.get(k, 0)) for k in keys]))
    return all(abs(float(g.get(k, 0)) - float(rf.get(k, 0))) < 1e-9 for k in keys)


def cases(tier):
    cs = []
    length = 3 if tier == 'quick' else 4
    for key in ALL_KEYS:
        for first in range(5):
            if first == 1:
                continue           # 'oracle at an existing point' cannot come first
            if tier == 'thorough':
                for second in range(6):
                    cs.append(dict(id="%s-op%d%d" % (key, first, second), cls=key, length=length, forced=[first, second],
                                   input_zero_tests='generic'))
            else:
                cs.append(dict(id="%s-op%d" % (key, first), cls=key, length=length, forced=[first],
                               input_zero_tests='generic'))
    return cs


def main(tier, only=None):
    cs = cases(tier)
    if only:
        cs = [c for c in cs if only in c['id']]
    return runner.run_property(
        "C04", tier, "vf.props.c04", cs, opts=dict(mode='reexec', max_paths=500000),
        assumptions=["reference conditions and required index sets (vf/refs/classes.py) written from the class "
                     "documentation and the cited interpolation theorems",
                     "matching is coefficient-wise identity up to positive scaling (no set-level equivalence): a "
                     "re-grouping of constraints inside PEPit would be reported",
                     "class parameters generic (coefficient polynomials that can be non-zero are assumed non-zero)"],
        bounds=dict(history_length=3 if tier == 'quick' else 4, classes=len(ALL_KEYS),
                    outside="longer histories; tightness of the documented conditions themselves"))
