"""C08 - primitive steps encode exactly their defining optimality conditions.

Each of the 8 steps runs on the real code with symbolic step sizes / accuracies, a leaf or combination starting point, a
leaf or composite function.  Against vf's own reference written from the step's documentation, z3 proves: the returned
points are tied by the documented relation (as formal combinations of leaves), exactly the documented samples were
recorded on exactly the documented functions, exactly the documented side constraints were added (affine forms equal up
to positive scaling), and nothing else changed.  Real side (1-D quadratic members): the real operation's output satisfies
what was recorded."""
import z3

from vf import runner
from vf.engine import lift
from vf.denote import canon, den_expr, den_point
from vf.props.c04 import same_form, trivial
from vf.props.c07 import pform, same_map


def setup_symbolic():
    from vf import npshim
    npshim.install()


def default_values(case):
    return [dict(gamma=0.5, eps=0.1, a=1.0, b=-0.5, w=1.0), dict(gamma=2.0, eps=0.3, a=-1.0, b=2.0, w=0.5)]


def expr_same(env, e1, e2):
    return same_map(env, dict(canon(e1)), dict(canon(e2)))


def point_same(env, p1, p2):
    return same_map(env, pform(p1), pform(p2))


class Scope:
    """snapshot of every function in scope, to compute exactly what a step recorded"""

    def __init__(self, fns):
        self.fns = fns
        self.before = {n: (len(f.list_of_points), len(f.list_of_constraints), len(f.list_of_psd)) for n, f in fns.items()}

    def delta(self):
        out = {}
        for n, f in self.fns.items():
            p0, c0, m0 = self.before[n]
            out[n] = (list(f.list_of_points[p0:]), list(f.list_of_constraints[c0:]), list(f.list_of_psd[m0:]))
        return out


def check_delta(env, tag, delta, expected_points, expected_constraints, terms_of_composite=()):
    """expected_points: {fname: [(x, g, f) objects]}; expected_constraints: {fname: [Constraint reference]}"""
    for n, (pts, cons, psd) in delta.items():
        exp = expected_points.get(n, [])
        if n in terms_of_composite:
            # recording a sample on a composite function distributes samples to its terms: add_point's contract (C07)
            pts = exp
        ok = len(pts) == len(exp) and all(t[0] is e[0] and t[1] is e[1] and t[2] is e[2] for t, e in zip(pts, exp))
        if not ok and len(pts) == len(exp):
            # same samples up to formal equality (a step may build equal combinations as new objects)
            ok = all(point_same(env, t[0], e[0]) and point_same(env, t[1], e[1]) and expr_same(env, t[2], e[2])
                     for t, e in zip(pts, exp))
        env.check(ok, "function %s: recorded samples differ from the documented ones (%d recorded, %d documented)"
                  % (n, len(pts), len(exp)), signature=tag + ":samples:" + n)
        expc = expected_constraints.get(n, [])
        used = [False] * len(cons)
        missing = 0
        for rc in expc:
            rf = dict(canon(rc.expression))
            req = rc.equality_or_inequality == 'equality'
            hit = None
            for i, c in enumerate(cons):
                if used[i] or (c.equality_or_inequality == 'equality') != req:
                    continue
                if same_form(env, dict(canon(c.expression)), rf, req):
                    hit = i
                    break
            if hit is None:
                missing += 1
            else:
                used[hit] = True
        extra = len(cons) - sum(used)
        env.check(missing == 0, "function %s: %d documented side constraint(s) were not recorded as documented" % (n, missing),
                  signature=tag + ":constraint-missing:" + n)
        env.check(extra == 0, "function %s: %d side constraint(s) recorded that the step does not document" % (n, extra),
                  signature=tag + ":constraint-extra:" + n)
        env.check(len(psd) == 0, "function %s: a step added an LMI" % n, signature=tag + ":lmi:" + n)


def prog_step(env, case):
    from PEPit import PEP, Point, Expression
    from PEPit.functions import ConvexFunction, SmoothConvexFunction, ConvexIndicatorFunction
    from PEPit import primitive_steps as ps
    step = case['step']
    opt = case.get('opt')
    tag = "C08:%s%s" % (step, ":" + opt if opt else "")
    pep = PEP()
    f = pep.declare_function(ConvexFunction)
    h = pep.declare_function(SmoothConvexFunction, L=1.0)
    fns = {'f': f, 'h': h}
    target, tname = f, 'f'
    if case.get('composite'):
        w = env.real("w")
        F = f + w * h
        fns['F'] = F
        target, tname = F, 'F'
    p0, p1 = Point(), Point()
    if case.get('start') == 'comb':
        a, b = env.real("a"), env.real("b")
        x0 = a * p0 + b * p1
    else:
        x0 = p0
    gamma = env.real("gamma")
    eps = env.real("eps")
    # ---- optional pre-history: what a step records must not depend on what happened before it ---------------------
    pre = case.get('pre')
    if pre == 'evaluated':
        target.oracle(x0)                       # the starting point was already evaluated by the user
    elif pre == 'stationary':
        x0 = target.stationary_point()          # the step starts from a declared optimum (null recorded gradient)
    elif pre == 'step':
        gp, ep = env.real("gamma_pre"), env.real("eps_pre")
        if step == 'proximal':
            x0 = ps.proximal_step(x0, target, gp)[0]
        elif step == 'inexact_gradient':
            x0 = ps.inexact_gradient_step(x0, target, gp, ep, notion=opt)[0]
        elif step == 'exact_linesearch':
            x0 = ps.exact_linesearch_step(x0, target, [p1])[0]
        elif step == 'epsilon_subgradient':
            x0 = ps.epsilon_subgradient_step(x0, target, gp)[0]
        elif step == 'bregman_gradient':
            x0 = ps.bregman_gradient_step(p1, x0, h, gp)[1]
        elif step == 'bregman_proximal':
            x0 = ps.bregman_proximal_step(x0, h, f, gp)[1]
        elif step == 'inexact_proximal':
            if env.sym:
                env.assume(env.neg(env.eq(gp, 0)))
            x0 = ps.inexact_proximal_step(x0, target, gp, opt=opt)[0]
    if pre:
        tag += ":after-" + pre
    sc = Scope(fns)
    expected_pts, expected_cons = {}, {}
    if step == 'proximal':
        x, gx, fx = ps.proximal_step(x0, target, gamma)
        env.check(point_same(env, x, x0 - gamma * gx), "proximal_step: x != x0 - gamma * gx", signature=tag + ":relation")
        env.check(gx.get_is_leaf() and fx.get_is_leaf(), "proximal_step: gx / fx are not fresh leaves", signature=tag + ":fresh")
        expected_pts[tname] = [(x, gx, fx)]
    elif step == 'inexact_gradient':
        n0 = len(target.list_of_points)
        x, dx0, fx0 = ps.inexact_gradient_step(x0, target, gamma, eps, notion=opt)
        g_rec = [t for t in target.list_of_points if point_same(env, t[0], x0)]
        env.check(len(g_rec) >= 1, "inexact_gradient_step: the function was not evaluated at x0", signature=tag + ":oracle")
        gx0 = g_rec[-1][1]
        env.check(point_same(env, x, x0 - gamma * dx0), "inexact_gradient_step: x != x0 - gamma * d", signature=tag + ":relation")
        env.check(expr_same(env, fx0, g_rec[-1][2]), "inexact_gradient_step: returned value is not f(x0)",
                  signature=tag + ":value")
        expected_pts[tname] = list(target.list_of_points[n0:n0 + 1])
        ref = ((gx0 - dx0) ** 2 <= eps ** 2) if opt == 'absolute' else ((gx0 - dx0) ** 2 <= eps ** 2 * gx0 ** 2)
        expected_cons[tname] = [ref]
        if case.get('composite'):
            # the oracle call on a composite also records samples on its terms: that is the oracle's contract (C07)
            sc.before['f'] = (len(f.list_of_points), sc.before['f'][1], sc.before['f'][2])
            sc.before['h'] = (len(h.list_of_points), sc.before['h'][1], sc.before['h'][2])
    elif step == 'exact_linesearch':
        dirs = [p1, x0 - p1][:case.get('ndirs', 1)]
        n0 = len(target.list_of_points)
        x, gx, fx = ps.exact_linesearch_step(x0, target, dirs)
        env.check(x.get_is_leaf(), "exact_linesearch_step: x is not a fresh point", signature=tag + ":fresh")
        rec = [t for t in target.list_of_points if t[0] is x]
        env.check(len(rec) == 1 and rec[0][1] is gx and rec[0][2] is fx, "exact_linesearch_step: returned (gx, fx) are not "
                  "the recorded sample at x", signature=tag + ":relation")
        expected_pts[tname] = list(target.list_of_points[n0:n0 + 1])
        expected_cons[tname] = [((x - x0) * gx == 0)] + [(d * gx == 0) for d in dirs]
        if case.get('composite'):
            sc.before['f'] = (len(f.list_of_points), sc.before['f'][1], sc.before['f'][2])
            sc.before['h'] = (len(h.list_of_points), sc.before['h'][1], sc.before['h'][2])
    elif step == 'epsilon_subgradient':
        n0 = len(target.list_of_points)
        x, g0, f0, epsv = ps.epsilon_subgradient_step(x0, target, gamma)
        env.check(point_same(env, x, x0 - gamma * g0), "epsilon_subgradient_step: x != x0 - gamma * g0",
                  signature=tag + ":relation")
        rec0 = [t for t in target.list_of_points if point_same(env, t[0], x0)]
        env.check(len(rec0) >= 1 and expr_same(env, f0, rec0[0][2]), "epsilon_subgradient_step: f0 is not f(x0)",
                  signature=tag + ":value")
        # g0 is an epsilon-subgradient at x0: it is a subgradient at some point y, and f(x0) + f*(g0) - <g0, x0> <= eps
        new = list(target.list_of_points[n0:])
        ys = [t for t in new if t[1] is g0]
        env.check(len(ys) == 1 and ys[0][0].get_is_leaf() and ys[0][2].get_is_leaf(),
                  "epsilon_subgradient_step: g0 is not recorded as a subgradient at a fresh point", signature=tag + ":samples")
        if len(ys) == 1:
            y, _, fy = ys[0]
            expected_cons[tname] = [(f0 + (g0 * y - fy) - g0 * x0 <= epsv)]
        expected_pts[tname] = new
        if case.get('composite'):
            sc.before['f'] = (len(f.list_of_points), sc.before['f'][1], sc.before['f'][2])
            sc.before['h'] = (len(h.list_of_points), sc.before['h'][1], sc.before['h'][2])
    elif step == 'bregman_gradient':
        gx0, sx0 = p1, x0
        x, sx, hx = ps.bregman_gradient_step(gx0, sx0, h, gamma)
        env.check(point_same(env, sx, sx0 - gamma * gx0), "bregman_gradient_step: sx != sx0 - gamma * gx0",
                  signature=tag + ":relation")
        env.check(x.get_is_leaf() and hx.get_is_leaf(), "bregman_gradient_step: x / hx not fresh", signature=tag + ":fresh")
        expected_pts['h'] = [(x, sx, hx)]
    elif step == 'bregman_proximal':
        sx0 = x0
        x, sx, hx, gx, fx = ps.bregman_proximal_step(sx0, h, f, gamma)
        env.check(point_same(env, sx, sx0 - gamma * gx), "bregman_proximal_step: sx != sx0 - gamma * gx",
                  signature=tag + ":relation")
        expected_pts['h'] = [(x, sx, hx)]
        expected_pts['f'] = [(x, gx, fx)]
    elif step == 'linear_optimization':
        ind = pep.declare_function(ConvexIndicatorFunction, D=1.0)
        fns['ind'] = ind
        sc = Scope(fns)
        d = x0
        x, gx, fx = ps.linear_optimization_step(d, ind)
        env.check(point_same(env, gx, -d), "linear_optimization_step: recorded normal vector is not -dir",
                  signature=tag + ":relation")
        env.check(x.get_is_leaf() and fx.get_is_leaf(), "linear_optimization_step: x / fx not fresh", signature=tag + ":fresh")
        expected_pts['ind'] = [(x, gx, fx)]
    elif step == 'inexact_proximal':
        if env.sym:
            env.assume(env.neg(env.eq(gamma, 0)))
        x, gx, fx, w_, v, fw, epsv = ps.inexact_proximal_step(x0, target, gamma, opt=opt)
        # documented: primal-dual gap  gamma f(x) + 1/2|x-x0|^2 + gamma f*(v) + 1/2|x0 - gamma v|^2 - 1/2|x0|^2 <= eps
        # with f*(v) = <v, w> - f(w) for v a subgradient at w
        gap = gamma * fx + (x - x0) ** 2 / 2 + gamma * (v * w_ - fw) + (x0 - gamma * v) ** 2 / 2 - x0 ** 2 / 2
        expected_cons[tname] = [(gap <= epsv)]
        if opt == 'PD_gapII':
            env.check(w_ is x and v is gx and fw is fx, "PD_gapII: (w, v, fw) must be (x, gx, fx)", signature=tag + ":relation")
            expected_pts[tname] = [(x, gx, fx)]
        elif opt == 'PD_gapIII':
            env.check(point_same(env, v, (x0 - x) / gamma), "PD_gapIII: v != (x0 - x) / gamma", signature=tag + ":relation")
            expected_pts[tname] = [(x, gx, fx), (w_, v, fw)]
        else:
            expected_pts[tname] = [(w_, v, fw), (x, gx, fx)]
        env.check(epsv.get_is_leaf(), "inexact_proximal_step: eps is not a fresh leaf", signature=tag + ":fresh")
        rec = {id(t[0]): t for t in target.list_of_points}
        env.check(id(x) in rec and rec[id(x)][1] is gx and rec[id(x)][2] is fx and id(w_) in rec and rec[id(w_)][1] is v
                  and rec[id(w_)][2] is fw, "inexact_proximal_step: (x, gx, fx) / (w, v, fw) are not recorded samples",
                  signature=tag + ":samples-recorded")
        if opt != 'PD_gapII':
            # order of the two samples is not part of the contract
            got = sc.delta()[tname][0]
            if len(got) == 2 and got[0][0] is expected_pts[tname][1][0]:
                expected_pts[tname] = expected_pts[tname][::-1]
    else:
        raise ValueError(step)
    check_delta(env, tag, sc.delta(), expected_pts, expected_cons,
                terms_of_composite=('f', 'h') if case.get('composite') else ())
    return tag


def prog_real(env, case):
    """real side: a real prox / inexact gradient / linear minimisation on a 1-D member satisfies what the step recorded"""
    from PEPit import PEP, Point
    from PEPit.functions import SmoothStronglyConvexFunction, ConvexIndicatorFunction
    from PEPit import primitive_steps as ps
    step = case['step']
    tag = "C08:real:%s" % step
    pep = PEP()
    mu = env.real("mu", lo=0)
    L = env.real("L", lo=0, lo_strict=True)
    env.assume(env.lt(mu, L))
    a = env.real("m_a")
    c = env.real("m_c")
    env.assume(env.ge(a, mu))
    env.assume(env.le(a, L))
    gamma = env.real("gamma", lo=0, lo_strict=True)
    f = pep.declare_function(SmoothStronglyConvexFunction, mu=mu, L=L)
    p0 = Point()
    x0r = env.real("x0r")
    P, F = {p0: [x0r]}, {}

    def fval(x):
        return a / 2 * (x - c) * (x - c)

    if step == 'proximal':
        x, gx, fx = ps.proximal_step(p0, f, gamma)
        xr = (x0r + gamma * a * c) / (1 + gamma * a)       # the real proximal point of the quadratic
        P[gx] = [a * (xr - c)]
        F[fx] = fval(xr)
        env.check_rel(den_point(x, P, 1)[0] - xr, '==', "the point returned by proximal_step is not the real proximal point "
                      "when its leaves take the real values", signature=tag + ":point")
    elif step == 'inexact_gradient':
        eps = env.real("eps", lo=0)
        x, d, fx0 = ps.inexact_gradient_step(p0, f, gamma, eps, notion=case['opt'])
        g0 = [t for t in f.list_of_points if t[0] is p0][0][1]
        gr = a * (x0r - c)
        err = env.real("err")
        if case['opt'] == 'absolute':
            env.assume(env.le(err * err, eps * eps))
        else:
            env.assume(env.le(err * err, eps * eps * gr * gr))
        P[g0] = [gr]
        P[d] = [gr + err]
        F[fx0] = fval(x0r)
        for cst in f.list_of_constraints:
            env.check_rel(den_expr(cst.expression, P, F), '<=', "a real inexact gradient within the documented accuracy "
                          "violates the recorded side constraint", signature=tag + ":side-constraint")
        # and conversely: the recorded constraint allows nothing more than the documented accuracy
        err2 = env.real("err2")
        P2 = dict(P)
        P2[d] = [gr + err2]
        for cst in f.list_of_constraints:
            v = den_expr(cst.expression, P2, F)
            bound = eps * eps if case['opt'] == 'absolute' else eps * eps * gr * gr
            if env.sym:
                env.check(z3.Implies(lift(v) <= 0, lift(err2 * err2) <= lift(bound)), "the recorded side constraint admits a "
                          "direction outside the documented accuracy", signature=tag + ":side-constraint-weaker")
    f.set_class_constraints()
    for cst in f.list_of_class_constraints:
        rel = '<=' if cst.equality_or_inequality == 'inequality' else '=='
        env.check_rel(den_expr(cst.expression, P, F), rel, "class constraint fails on the real step's samples",
                      signature=tag + ":class-constraint")
    return tag


def dispatch(env, case):
    return prog_real(env, case) if case.get('real') else prog_step(env, case)


def cases(tier):
    cs = []
    steps = [('proximal', None), ('inexact_gradient', 'absolute'), ('inexact_gradient', 'relative'),
             ('exact_linesearch', None), ('epsilon_subgradient', None), ('bregman_gradient', None),
             ('bregman_proximal', None), ('linear_optimization', None), ('inexact_proximal', 'PD_gapI'),
             ('inexact_proximal', 'PD_gapII'), ('inexact_proximal', 'PD_gapIII')]
    for st, opt in steps:
        for start in ('leaf', 'comb'):
            for comp in ((False,) if tier == 'quick' and start == 'comb' else (False, True)):
                if comp and st in ('bregman_gradient', 'bregman_proximal', 'linear_optimization'):
                    continue
                cs.append(dict(id="%s%s-%s%s" % (st, "-" + opt if opt else "", start, "-composite" if comp else ""),
                               step=st, opt=opt, start=start, composite=comp, ndirs=2 if start == 'comb' else 1,
                               input_zero_tests='generic' if comp else 'fork'))
    # pre-histories: the starting point already evaluated / a declared optimum / the output of the same step
    for st, opt in steps:
        for pre in ('evaluated', 'stationary', 'step'):
            if st == 'linear_optimization' or (pre == 'stationary' and st in ('bregman_gradient', 'bregman_proximal')):
                continue
            for comp in ((False,) if tier == 'quick' else (False, True)):
                if comp and st in ('bregman_gradient', 'bregman_proximal'):
                    continue
                if tier == 'quick' and not ((pre == 'step' and st in ('proximal', 'inexact_gradient', 'exact_linesearch'))
                                            or (pre == 'stationary' and st == 'inexact_gradient')
                                            or (pre == 'evaluated' and st in ('epsilon_subgradient', 'inexact_proximal'))):
                    continue
                cs.append(dict(id="%s%s-after-%s%s" % (st, "-" + opt if opt else "", pre, "-composite" if comp else ""),
                               step=st, opt=opt, start='leaf', composite=comp, ndirs=1, pre=pre,
                               input_zero_tests='generic' if comp else 'fork'))
    cs.append(dict(id="real-proximal", real=True, step='proximal'))
    cs.append(dict(id="real-inexact-absolute", real=True, step='inexact_gradient', opt='absolute'))
    cs.append(dict(id="real-inexact-relative", real=True, step='inexact_gradient', opt='relative'))
    return cs


def main(tier, only=None):
    cs = cases(tier)
    if only:
        cs = [c for c in cs if only in c['id']]
    return runner.run_property(
        "C08", tier, "vf.props.c08", cs, opts=dict(mode='reexec', max_paths=100000),
        assumptions=["reference relations / recorded samples / side constraints written from each step's documentation "
                     "(inexact proximal: the primal-dual gap formula of the docstring with f*(v) = <v,w> - f(w))",
                     "an oracle call made by a step on a composite function also records samples on its terms (C07's "
                     "subject) - not counted as an extra"],
        bounds=dict(steps=8, options="absolute/relative, PD_gapI/II/III", functions="leaf, f + w*h",
                    starting_points="leaf, symbolic combination", real_side="1-D quadratic members for proximal and inexact "
                    "gradient steps", outside="real-side checks for the other steps; members outside the family"))


prog = dispatch
