"""C06 - point / expression algebra is a faithful calculus.

Every expression tree with <= K operator nodes (structure drawn through env.choose, scalars symbolic) is built
twice: with PEPit's real operator overloads, and by an independent interpreter over z3 vectors / reals.  z3 must
prove  [[PEPit result]] == interpreter(tree)  for all leaf values and scalars; operands must be unchanged.
"""
import sys
import warnings

from vf import runner
from vf.denote import den_point, den_expr, dot, snapshot

DIM = 2

P_OPS = ['leaf', 'add', 'sub', 'neg', 'rmul', 'mul', 'div', 'iadd', 'isub', 'imul']
E_OPS = ['leaf', 'add', 'sub', 'neg', 'rmul', 'mul', 'div', 'adds', 'radds', 'subs', 'rsubs', 'pp', 'sq', 'iadd', 'isub',
         'imul', 'iadds']
C_OPS = ['le', 'ge', 'eq', 'lt', 'gt', 'les', 'ges', 'eqs', 'rles', 'rges']


def setup_symbolic():
    from vf import npshim
    npshim.install()


class Ctx:
    def __init__(self, env, case):
        from PEPit import PEP, Point, Expression
        self.env = env
        self.pep = PEP()
        self.npts = case.get('npts', 2)
        self.nexp = case.get('nexp', 2)
        self.int_scalars = case.get('int_scalars', True)
        self.tiny_scalars = case.get('tiny_scalars', False)
        self.lp = [Point() for _ in range(self.npts)]
        self.le = [Expression() for _ in range(self.nexp)]
        self.P = {p: [env.real("p%d_%d" % (i, k)) for k in range(DIM)] for i, p in enumerate(self.lp)}
        self.F = {e: env.real("f%d" % i) for i, e in enumerate(self.le)}
        self.ns = 0
        self.operands = []   # (object, snapshot) to check for mutation
        self.trace = []
        self.forced = list(case.get('forced', []))

    def ch(self, n, label=''):
        if self.forced:
            d = self.forced.pop(0)
            if d >= n:
                from vf.engine import Abort
                raise Abort()
            return d
        return self.env.choose(n, label)

    def scalar(self):
        env = self.env
        if self.tiny_scalars:
            # concrete scalars of extreme but legal magnitude (an absolute tolerance in a zero test would drop them)
            # (powers of two: every sum / product / quotient in a tree of this size is exact in binary64, so the float
            #  execution IS the real-arithmetic one and no rounding artefact can appear)
            pool = [2.0 ** -27, -2.0 ** -30, 2.0 ** -28, 2.0 ** 4]
            v = pool[self.ch(len(pool), 'tiny-scalar')]
            self.trace.append(repr(v))
            return v, v
        k = self.ch(2 if self.int_scalars else 1, 'scalar-kind')
        if k == 0:
            s = env.real("s%d" % self.ns)
            self.ns += 1
            self.trace.append('s')
            return s, s
        self.trace.append('0')
        return 0, 0

    def track(self, obj):
        self.operands.append((obj, snapshot(obj)))

    def gen_point(self, budget):
        env = self.env
        op = P_OPS[self.ch(len(P_OPS) if budget > 0 else 1, 'P-op')]
        self.trace.append('P:' + op)
        if op == 'leaf':
            i = self.ch(self.npts, 'leaf-point')
            p = self.lp[i]
            return p, list(self.P[p])
        budget -= 1
        if op in ('add', 'sub', 'iadd', 'isub'):
            bl = self.ch(budget + 1, 'split')
            a, va = self.gen_point(bl)
            b, vb = self.gen_point(budget - bl)
            self.track(a)
            self.track(b)
            if op == 'add':
                return a + b, [x + y for x, y in zip(va, vb)]
            if op == 'sub':
                return a - b, [x - y for x, y in zip(va, vb)]
            # augmented assignment: `c = a; c += b` must rebind c and leave the object a (held elsewhere) unchanged
            c = a
            if op == 'iadd':
                c += b
                return c, [x + y for x, y in zip(va, vb)]
            c -= b
            return c, [x - y for x, y in zip(va, vb)]
        a, va = self.gen_point(budget)
        self.track(a)
        if op == 'neg':
            return -a, [-x for x in va]
        s, vs = self.scalar()
        if op == 'imul':
            c = a
            c *= s
            return c, [x * vs for x in va]
        if op == 'rmul':
            return s * a, [vs * x for x in va]
        if op == 'mul':
            return a * s, [x * vs for x in va]
        if op == 'div':
            return self.divide(a, s, vs, [lambda x=x: x / vs for x in va], vec=True)
        raise AssertionError(op)

    def divide(self, a, s, vs, thunks, vec):
        """a / s : must raise exactly when s == 0"""
        env = self.env
        try:
            r = a / s
        except ZeroDivisionError:
            env.check(env.eq(vs, 0), "division raised ZeroDivisionError although the divisor is not zero",
                      signature="C06:div-raises-on-nonzero")
            raise EndOfPath()
        env.check(env.neg(env.eq(vs, 0)), "division by a zero scalar returned an object instead of raising",
                  signature="C06:div-by-zero-returns")
        if env.sym:
            env.assume(env.neg(env.eq(vs, 0)))
        elif vs == 0:
            raise EndOfPath()
        vals = [t() for t in thunks]
        return r, (vals if vec else vals[0])

    def gen_expr(self, budget):
        env = self.env
        op = E_OPS[self.ch(len(E_OPS) if budget > 0 else 1, 'E-op')]
        self.trace.append('E:' + op)
        if op == 'leaf':
            i = self.ch(self.nexp, 'leaf-expr')
            e = self.le[i]
            return e, self.F[e]
        budget -= 1
        if op in ('add', 'sub', 'iadd', 'isub'):
            bl = self.ch(budget + 1, 'split')
            a, va = self.gen_expr(bl)
            b, vb = self.gen_expr(budget - bl)
            self.track(a)
            self.track(b)
            if op in ('add', 'sub'):
                return (a + b, va + vb) if op == 'add' else (a - b, va - vb)
            c = a
            if op == 'iadd':
                c += b
                return c, va + vb
            c -= b
            return c, va - vb
        if op in ('pp',):
            bl = self.ch(budget + 1, 'split')
            a, va = self.gen_point(bl)
            b, vb = self.gen_point(budget - bl)
            self.track(a)
            self.track(b)
            return a * b, dot(va, vb)
        if op == 'sq':
            a, va = self.gen_point(budget)
            self.track(a)
            return a ** 2, dot(va, va)
        a, va = self.gen_expr(budget)
        self.track(a)
        if op == 'neg':
            return -a, -va
        s, vs = self.scalar()
        if op == 'imul':
            c = a
            c *= s
            return c, va * vs
        if op == 'iadds':
            c = a
            c += s
            return c, va + vs
        if op == 'rmul':
            return s * a, vs * va
        if op == 'mul':
            return a * s, va * vs
        if op == 'div':
            return self.divide(a, s, vs, [lambda: va / vs], vec=False)
        if op == 'adds':
            return a + s, va + vs
        if op == 'radds':
            return s + a, vs + va
        if op == 'subs':
            return a - s, va - vs
        if op == 'rsubs':
            return s - a, vs - va
        raise AssertionError(op)

    def gen_constraint(self, budget):
        env = self.env
        op = C_OPS[self.ch(len(C_OPS), 'C-op')]
        self.trace.append('C:' + op)
        if op in ('le', 'ge', 'eq', 'lt', 'gt'):
            bl = self.ch(budget + 1, 'split')
            a, va = self.gen_expr(bl)
            b, vb = self.gen_expr(budget - bl)
            self.track(a)
            self.track(b)
            with warnings.catch_warnings():
                warnings.simplefilter("ignore")
                c = {'le': lambda: a <= b, 'ge': lambda: a >= b, 'eq': lambda: a == b, 'lt': lambda: a < b,
                     'gt': lambda: a > b}[op]()
            sense = 'equality' if op == 'eq' else 'inequality'
            ref = (vb - va) if op in ('ge', 'gt') else (va - vb)
            return c, ref, sense
        a, va = self.gen_expr(budget)
        self.track(a)
        s, vs = self.scalar()
        if op == 'les':
            return a <= s, va - vs, 'inequality'
        if op == 'ges':
            return a >= s, vs - va, 'inequality'
        if op == 'eqs':
            return a == s, va - vs, 'equality'
        if op == 'rles':   # s <= a  is evaluated by Python as a.__ge__(s)
            return s <= a, vs - va, 'inequality'
        if op == 'rges':   # s >= a  ->  a.__le__(s)
            return s >= a, va - vs, 'inequality'
        raise AssertionError(op)

    def check_operands_unchanged(self):
        env = self.env
        for obj, snap in self.operands:
            now = snapshot(obj)
            same_keys = len(now) == len(snap) and all(k1 is k0 for (k1, _), (k0, _) in zip(now, snap))
            env.check(same_keys, "an operand's decomposition keys changed during an operation",
                      signature="C06:operand-mutated-keys")
            if same_keys:
                for (k, v1), (_, v0) in zip(now, snap):
                    if v1 is not v0:
                        env.check_eq(v1, v0, "an operand's coefficient changed during an operation",
                                     signature="C06:operand-mutated-values")


class EndOfPath(Exception):
    pass


def prog(env, case):
    kind = case['kind']
    if kind == 'tree':
        return prog_tree(env, case)
    if kind == 'illtyped':
        return prog_illtyped(env, case)
    if kind == 'store':
        return prog_store(env, case)
    if kind == 'add_point':
        return prog_add_point(env, case)
    if kind == 'dictops':
        return prog_dictops(env, case)
    raise ValueError(kind)


def prog_tree(env, case):
    from PEPit import Point, Expression
    from PEPit.constraint import Constraint
    ctx = Ctx(env, case)
    top = case['top']
    budget = case['budget']
    try:
        if top == 'P':
            obj, ref = ctx.gen_point(budget)
            env.check(type(obj) is Point and not obj.get_is_leaf() or obj in ctx.lp,
                      "point operator did not return a Point", signature="C06:type-P")
            val = den_point(obj, ctx.P, DIM)
            for k in range(DIM):
                env.check_eq(val[k], ref[k], "[[point tree]] != interpreter: %s" % ctx.trace,
                             signature="C06:point-denotation")
        elif top == 'E':
            obj, ref = ctx.gen_expr(budget)
            env.check(type(obj) is Expression, "expression operator did not return an Expression",
                      signature="C06:type-E")
            val = den_expr(obj, ctx.P, ctx.F)
            env.check_eq(val, ref, "[[expression tree]] != interpreter: %s" % ctx.trace,
                         signature="C06:expression-denotation")
        else:
            obj, ref, sense = ctx.gen_constraint(budget)
            env.check(type(obj) is Constraint, "comparison did not return a Constraint", signature="C06:type-C")
            env.check(obj.equality_or_inequality == sense, "constraint sense differs from the comparison written: %s"
                      % ctx.trace, signature="C06:constraint-sense")
            val = den_expr(obj.expression, ctx.P, ctx.F)
            env.check_eq(val, ref, "[[constraint.expression]] != lhs - rhs as written: %s" % ctx.trace,
                         signature="C06:constraint-denotation")
        ctx.check_operands_unchanged()
    except EndOfPath:
        pass
    return ctx.trace


# ---- operand kinds outside the documented ones: must raise or mean the right thing ---------------------------

def _ill_cases():
    import numpy as np
    odd = [('str', lambda: "a"), ('none', lambda: None), ('list', lambda: [1.0]), ('complex', lambda: 1 + 2j),
           ('npint64', lambda: np.int64(3)), ('npfloat32', lambda: np.float32(0.5)), ('npfloat64', lambda: np.float64(0.5)),
           ('bool', lambda: True), ('tuple', lambda: (1, 2)), ('npuint8', lambda: np.uint8(3)), ('npint8', lambda: np.int8(100)),
           ('npfloat16', lambda: np.float16(0.1)), ('npint32', lambda: np.int32(7))]
    return odd


def prog_illtyped(env, case):
    """lhs (Point/Expression) <op> odd operand: raise, or return an object with the interpreter's meaning."""
    import numpy as np
    from PEPit import PEP, Point, Expression
    from PEPit.constraint import Constraint
    pep = PEP()
    p0, p1 = Point(), Point()
    e0 = Expression()
    P = {p0: [env.real("p0_0"), env.real("p0_1")], p1: [env.real("p1_0"), env.real("p1_1")]}
    F = {e0: env.real("f0")}
    s = env.real("s0")
    lhs_kind, opname, oddname = case['lhs'], case['op'], case['odd']
    lhs = {'P': p0 + s * p1, 'E': e0 + s * (p0 * p1)}[lhs_kind]
    lv = den_point(lhs, P, DIM) if lhs_kind == 'P' else den_expr(lhs, P, F)
    specials = {'P2': p1, 'E2': e0}
    if oddname in specials:
        odd = specials[oddname]
    else:
        odd = dict(_ill_cases())[oddname]()
    ops = {
        'add': lambda a, b: a + b, 'radd': lambda a, b: b + a, 'sub': lambda a, b: a - b, 'rsub': lambda a, b: b - a,
        'mul': lambda a, b: a * b, 'rmul': lambda a, b: b * a, 'div': lambda a, b: a / b, 'rdiv': lambda a, b: b / a,
        'pow3': lambda a, b: a ** 3, 'pow1': lambda a, b: a ** 1, 'le': lambda a, b: a <= b, 'eq': lambda a, b: a == b,
        'twice': lambda a, b: a * b + a * b,
    }
    try:
        with warnings.catch_warnings():
            warnings.simplefilter("ignore")
            r = ops[opname](lhs, odd)
    except Exception:
        return "raised"
    # did not raise: the result must carry the mathematical meaning (only defined for numeric scalars / same kind)
    num = None
    if isinstance(odd, (bool, int, float, np.integer, np.floating)) and not isinstance(odd, complex):
        num = float(odd)
    sig = "C06:illtyped:%s:%s:%s" % (lhs_kind, opname, oddname)
    what = "operand kind %s for %s.%s did not raise and the result does not mean the operation" % (oddname, lhs_kind,
                                                                                                 opname)

    def meaning_scalar(v):
        return {'add': lambda: v + num, 'radd': lambda: num + v, 'sub': lambda: v - num, 'rsub': lambda: num - v,
                'mul': lambda: v * num, 'rmul': lambda: num * v,
                'div': lambda: v * (1 / num),                 # binary64 reciprocal, as Python computes it
                'twice': lambda: 2 * (v * num)}.get(opname)

    if opname in ('pow3', 'pow1'):
        env.check(False, "Point/Expression ** %s did not raise" % opname[-1], signature=sig)
        return "returned"
    if r is NotImplemented or (isinstance(r, bool) and opname == 'eq'):
        # Python's default comparison (identity): no object with another meaning was produced
        return "notimplemented"
    if lhs_kind == 'P':
        if num is not None and opname in ('mul', 'rmul', 'div', 'twice') and isinstance(r, Point):
            rv = den_point(r, P, DIM)
            for k in range(DIM):
                env.check_eq(rv[k], meaning_scalar(lv[k])(), what, signature=sig)
            return "scalar-ok"
        env.check(False, what, signature=sig)
    else:
        if num is not None and opname in ('add', 'radd', 'sub', 'rsub', 'mul', 'rmul', 'div', 'twice') and isinstance(r, Expression):
            env.check_eq(den_expr(r, P, F), meaning_scalar(lv)(), what, signature=sig)
            return "scalar-ok"
        if num is not None and opname in ('le', 'eq') and isinstance(r, Constraint):
            env.check_eq(den_expr(r.expression, P, F), lv - num, what, signature=sig)
            return "scalar-ok"
        env.check(False, what, signature=sig)
    return "returned"


# ---- PSDMatrix._store ------------------------------------------------------------------------------------------

def prog_store(env, case):
    from PEPit import PEP, Point, Expression
    from PEPit.psd_matrix import PSDMatrix
    pep = PEP()
    p0, p1 = Point(), Point()
    e0 = Expression()
    P = {p0: [env.real("p0_0"), env.real("p0_1")], p1: [env.real("p1_0"), env.real("p1_1")]}
    F = {e0: env.real("f0")}
    n = case['n']
    entries, refs = [], []
    ns = 0
    for i in range(n):
        row, rrow = [], []
        for j in range(n):
            k = env.choose(4, 'entry-kind')
            if k == 0:
                s = env.real("s%d" % ns)
                ns += 1
                row.append(s)
                rrow.append(s)
            elif k == 1:
                row.append(1)
                rrow.append(1)
            elif k == 2:
                row.append(e0)
                rrow.append(F[e0])
            else:
                s = env.real("s%d" % ns)
                ns += 1
                row.append(s * (p0 * p1) - e0)
                rrow.append(s * dot(P[p0], P[p1]) - F[e0])
        entries.append(row)
        refs.append(rrow)
    given = entries
    if case.get('as_ndarray'):
        # the matrix is handed over as the caller's own object array (as the library's class files do)
        import numpy as np
        given = np.empty((n, n), dtype=object)
        for i in range(n):
            for j in range(n):
                given[i, j] = entries[i][j]
    try:
        m = PSDMatrix(given)
    except TypeError:
        # real behaviour: a matrix made only of plain numbers becomes a numeric numpy array and is rejected (raises, which
        # the property allows: no object with another meaning is produced)
        env.check(not any(isinstance(x, Expression) for row in entries for x in row),
                  "PSDMatrix rejected a matrix that contains Expressions", signature="C06:store-rejects")
        return "store-raised"
    if case.get('as_ndarray'):
        # operands are never altered: the caller's array still holds the very objects it held, and what the caller does
        # with its array afterwards does not change the LMI already built
        env.check(all(given[i, j] is entries[i][j] for i in range(n) for j in range(n)),
                  "PSDMatrix construction replaced entries of the caller's array", signature="C06:store-alters-operand")
        given[0, 0] = e0 + 7
        given[n - 1, 0] = 3
    env.check(m.shape == (n, n), "PSDMatrix shape differs from the matrix written", signature="C06:store-shape")
    for i in range(n):
        for j in range(n):
            ent = m[i, j]
            env.check(isinstance(ent, Expression), "PSDMatrix entry is not an Expression", signature="C06:store-type")
            env.check_eq(den_expr(ent, P, F), refs[i][j], "PSDMatrix entry (%d,%d) does not denote what was written"
                         % (i, j), signature="C06:store-denotation")
    return "store"


# ---- Function.add_point's in-place pruning keeps the meaning ---------------------------------------------------

def prog_add_point(env, case):
    from PEPit import PEP, Point, Expression
    from PEPit.functions import ConvexFunction
    pep = PEP()
    f = pep.declare_function(ConvexFunction)
    p0, p1 = Point(), Point()
    e0 = Expression()
    P = {p0: [env.real("p0_0"), env.real("p0_1")], p1: [env.real("p1_0"), env.real("p1_1")]}
    F = {e0: env.real("f0")}
    a, b, c = env.real("s0"), env.real("s1"), env.real("s2")
    x = a * p0 + p1          # __add__ prunes, __rmul__ does not
    g = b * p1               # not pruned: may hold a zero coefficient
    v = c * e0 + 0 * (p0 * p1)
    v = c * v                # unpruned zero entries
    refs = (den_point(x, P, DIM), den_point(g, P, DIM), den_expr(v, P, F))
    f.add_point((x, g, v))
    now = (den_point(x, P, DIM), den_point(g, P, DIM), den_expr(v, P, F))
    for k in range(DIM):
        env.check_eq(now[0][k], refs[0][k], "add_point changed the meaning of the point", signature="C06:add_point-x")
        env.check_eq(now[1][k], refs[1][k], "add_point changed the meaning of the gradient", signature="C06:add_point-g")
    env.check_eq(now[2], refs[2], "add_point changed the meaning of the value", signature="C06:add_point-f")
    # after pruning, no key may carry a provably-zero coefficient on this path ... and a stationary point is detected
    # exactly when the gradient denotes 0 as a formal combination
    is_stat = any(t[0] is x for t in f.list_of_stationary_points)
    env.check(env.eq(b, 0) if is_stat else env.neg(env.eq(b, 0)),
              "stationary-point detection disagrees with the gradient's coefficients", signature="C06:add_point-stationary")
    return "add_point"


# ---- the four dictionary operations, directly -----------------------------------------------------------------

def prog_dictops(env, case):
    from PEPit.tools.dict_operations import merge_dict, prune_dict, multiply_dicts, symmetrize_dict
    nk = case['nkeys']
    keys = ['k%d' % i for i in range(nk)]
    # which keys are present in each dict is drawn; the values are symbolic
    d1, d2 = {}, {}
    for i, k in enumerate(keys):
        c = env.choose(4, 'presence')
        if c & 1:
            d1[k] = env.real("a%d" % i)
        if c & 2:
            d2[k] = env.real("b%d" % i)
    s1, s2 = dict(d1), dict(d2)

    def get(d, k):
        return d[k] if k in d else 0

    m = merge_dict(d1, d2)
    env.check(set(m.keys()) == set(d1) | set(d2), "merge_dict key set is not the union", signature="C06:merge-keys")
    for k in set(d1) | set(d2):
        env.check_eq(get(m, k), get(d1, k) + get(d2, k), "merge_dict value is not the sum", signature="C06:merge-values")
    pr = prune_dict(m)
    for k in m:
        if k in pr:
            env.check(env.neg(env.eq(m[k], 0)), "prune_dict kept a zero entry", signature="C06:prune-kept-zero")
            env.check(pr[k] is m[k], "prune_dict changed a value", signature="C06:prune-value")
        else:
            env.check(env.eq(m[k], 0), "prune_dict removed a non-zero entry", signature="C06:prune-removed-nonzero")
    pd = multiply_dicts(d1, d2)
    env.check(set(pd.keys()) == {(k1, k2) for k1 in d1 for k2 in d2}, "multiply_dicts key set is not the product",
              signature="C06:multiply-keys")
    for (k1, k2), v in pd.items():
        env.check_eq(v, d1[k1] * d2[k2], "multiply_dicts value is not the product", signature="C06:multiply-values")
    # symmetrize on a dict with tuple keys (mirrored, diagonal) and plain keys
    t = {}
    idx = 0
    for key in [('x', 'y'), ('y', 'x'), ('x', 'x'), 'f', 1]:
        if env.choose(2, 'sym-presence'):
            t[key] = env.real("c%d" % idx)
        idx += 1
    st = dict(t)
    sy = symmetrize_dict(t)
    allkeys = set(t) | {k[::-1] for k in t if isinstance(k, tuple)}
    env.check(set(sy.keys()) == allkeys, "symmetrize_dict key set wrong", signature="C06:symmetrize-keys")
    for k in allkeys:
        if isinstance(k, tuple):
            ref = (get(t, k) + get(t, k[::-1])) / 2
        else:
            ref = get(t, k)
        env.check_eq(sy[k], ref, "symmetrize_dict value wrong for key %r" % (k,), signature="C06:symmetrize-values")
    for d, s, nm in ((d1, s1, 'dict1'), (d2, s2, 'dict2'), (t, st, 'symmetrize input')):
        env.check(list(d.keys()) == list(s.keys()) and all(d[k] is s[k] for k in s),
                  "%s was mutated by a dictionary operation" % nm, signature="C06:dictops-mutation")
    return "dictops"


# ---- cases ----------------------------------------------------------------------------------------------------

def cases(tier):
    cs = []
    budgets = {'quick': 2, 'thorough': 3}[tier]
    nops = dict(P=len(P_OPS), E=len(E_OPS), C=len(C_OPS))
    for top in ('P', 'E', 'C'):
        b = budgets
        small = (tier == 'thorough')
        for first in range(nops[top]):
            if tier == 'thorough' and top != 'C' and first > 0:
                # split one level deeper for load balance: second choice is 'split' (binary ops) or the operand's op
                cs.append(dict(id="tree-%s-%d-op%02d" % (top, b, first), kind='tree', top=top, budget=b, forced=[first],
                               npts=2, nexp=1, int_scalars=False))
            else:
                cs.append(dict(id="tree-%s-%d-op%02d" % (top, b, first), kind='tree', top=top, budget=b, forced=[first],
                               npts=2, nexp=1 if small else 2, int_scalars=not small))
    for top in ('P', 'E', 'C'):
        for first in range(nops[top]):
            # (a comparison adds one subtraction on top: budget 1 keeps every float operation exact)
            cs.append(dict(id="tiny-%s-op%02d" % (top, first), kind='tree', top=top, budget=1 if top == 'C' else 2,
                           forced=[first], npts=2, nexp=1,
                           tiny_scalars=True, replay_tol=1e-14))
    odd = [n for n, _ in _ill_cases()]
    for lhs in ('P', 'E'):
        for op in ('add', 'radd', 'sub', 'rsub', 'mul', 'rmul', 'div', 'rdiv', 'pow3', 'le', 'eq', 'twice'):
            for o in odd + (['E2'] if lhs == 'P' else ['P2']):
                cs.append(dict(id="ill-%s-%s-%s" % (lhs, op, o), kind='illtyped', lhs=lhs, op=op, odd=o))
    cs.append(dict(id="store-1", kind='store', n=1))
    cs.append(dict(id="store-2", kind='store', n=2))
    cs.append(dict(id="store-ndarray-1", kind='store', n=1, as_ndarray=True))
    cs.append(dict(id="store-ndarray-2", kind='store', n=2, as_ndarray=True))
    cs.append(dict(id="add_point", kind='add_point'))
    cs.append(dict(id="dictops-2", kind='dictops', nkeys=2))
    if tier == 'thorough':
        cs.append(dict(id="dictops-3", kind='dictops', nkeys=3))
    return cs


def main(tier, only=None):
    cs = cases(tier)
    if only:
        cs = [c for c in cs if only in c['id']]
    return runner.run_property(
        "C06", tier, "vf.props.c06", cs,
        opts=dict(max_paths=3000000, assert_timeout_ms=30000, mode='reexec'),
        assumptions=["leaf points valued in R^2 (all forms are bilinear, so a counterexample in R^d projects to one in "
                     "a 2-D subspace only for single products; stated as a bound)",
                     "operand kinds outside the documented ones are a finite list (str, None, list, tuple, complex, bool, "
                     "numpy scalars, Point/Expression mix-ups, **3)"],
        bounds=dict(operator_nodes=2 if tier == 'quick' else 3, leaf_points=2, leaf_expressions=2, dim=DIM,
                    outside="trees with more operator nodes; leaf values in more than 2 dimensions; float rounding"),
    )
