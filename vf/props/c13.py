"""C13 - solving again gives fresh, consistent answers.

One PEP object is solved two or three times with an edit in between (none / replace the initial condition / add a
metric / add an LMI / other back-end / primal mode / dimension reduction / a middle solve that finds nothing), user-held
derived objects are evaluated between the solves.  Every solve gets INDEPENDENT solver-output symbols, so 'evaluates to the
latest solution' is decided against an adversary that makes the solutions differ.  After the last solve z3 proves: every
held object evaluates to its denotation over the LATEST leaf values; the exposed multipliers satisfy C01's identity under
the LAST solve's KKT contract; the data handed to the solver equals, row for row, what a freshly built equivalent model
hands over (so nothing accumulates with the number of solves)."""
from vf import runner, pipeline, sdp
from vf.denote import den_point, den_expr
from vf.solverstub import CvxStub, MosekStub
from vf.props import c01, c02, c12


def setup_symbolic():
    pipeline.setup_symbolic()


def setup_concrete():
    pipeline.setup_concrete()
    c12.record_real_cvxpy_kwargs()


def default_values(case):
    return pipeline.default_values()


signature_matches = c01.signature_matches

EDITS = ['none', 'replace-initial-condition', 'add-metric', 'add-lmi', 'switch-backend', 'primal-mode', 'trace-heuristic',
         'failed-middle-solve', 'new-sample', 'inaccurate-second-solve', 'options-middle-solve', 'change-parameter', 'heuristic-then-primal']


def apply_edit(env, m, edit, tagname=""):
    from PEPit import Expression
    pep = m.pep
    if edit == 'replace-initial-condition':
        R2 = env.real("R2" + tagname)
        x0, xs = m.points['x0'], m.points['xs']
        c = ((x0 - xs) ** 2 <= R2) if xs is not x0 else (x0 ** 2 <= R2)
        pep.list_of_constraints = [c] + list(pep.list_of_constraints[1:])
        m.constraints = [c] + list(m.constraints[1:])
    elif edit == 'add-metric':
        met = m.exprs['dist']
        pep.set_performance_metric(met)
        m.metrics.append(met)
    elif edit == 'new-sample':
        # the user evaluates the function (for a linear operator: its adjoint) at one more point between two solves
        from PEPit import Point
        u = Point()
        target = m.f.T if hasattr(m.f, 'T') else m.f
        gu = target.gradient(u)
        c = (u ** 2 <= 1)
        pep.add_constraint(c)
        m.constraints.append(c)
        met = gu ** 2
        pep.set_performance_metric(met)
        m.metrics.append(met)
    elif edit == 'change-parameter':
        # a parameter sweep on one problem object: the class parameter is reassigned between two solves
        L2 = env.real("Lnew" + tagname, lo=0, lo_strict=True)
        if env.sym and 'mu' in m.params and m.params['mu'] is not None:
            env.assume(env.lt(m.params['mu'], L2))
        m.f.L = L2
    elif edit == 'add-lmi':
        t = Expression()
        a = env.real("lnew" + tagname)
        psd = pep.add_psd_matrix([[m.exprs['dist'], t], [t, a]])
        m.lmis.append(psd)


def prog(env, case):
    from PEPit import Point, Expression
    spec = dict(case['spec'])
    edit = case['edit']
    b1 = case.get('backend', 'cvxpy')
    tag = "C13:%s:%s:%s" % (b1, case['mname'], edit)
    if env.sym:
        cstub = CvxStub(env).install()
        mstub = MosekStub(env).install()
    else:
        pipeline.enable_mosek_emulator() if (b1 == 'mosek' or edit == 'switch-backend') else None
    spec['backend'] = b1
    m = pipeline.build(env, spec)
    pep = m.pep
    held = c02.held_objects(env, m, after=False)
    # ---- solve 1 ------------------------------------------------------------------------------------------
    kw1 = {}
    if edit == 'heuristic-then-primal':
        kw1 = dict(dimension_reduction_heuristic='trace')      # the FIRST solve uses a dimension-reduction heuristic
    t1, e1 = pipeline.safe_solve(env, pep, tag + ":solve1", wrapper=b1, verbose=0, **kw1)
    options_first = c12.solver_call_options(pep.wrapper, b1) if pep.wrapper is not None else None
    if e1:
        return e1
    n_sent1 = len(pep._list_of_constraints_sent_to_wrapper)
    n_psd1 = len(pep._list_of_psd_sent_to_wrapper)
    if case.get('evaluate_between', True) and t1 is not None:
        for o in held.values():
            o.eval()                           # the user looks at the first solution
    # ---- edit, optional failed solve, solve 2 -------------------------------------------------------------------
    b2 = b1
    kw = dict(verbose=0)
    if edit == 'switch-backend':
        b2 = 'mosek' if b1 == 'cvxpy' else 'cvxpy'
    elif edit == 'primal-mode':
        kw['return_primal_or_dual'] = 'primal'
    elif edit == 'trace-heuristic':
        kw['dimension_reduction_heuristic'] = 'trace'
    elif edit == 'inaccurate-second-solve':
        # the second solve ends with cvxpy's status 'optimal_inaccurate' (a solution is returned): everything must still
        # be refreshed from it.  Replays obtain the status from SCS with an unreachable accuracy target.
        apply_edit(env, m, 'replace-initial-condition')
        if env.sym:
            cstub.statuses = ('optimal_inaccurate',)
        else:
            kw.update(eps=1e-12, max_iters=3000)
    elif edit == 'heuristic-then-primal':
        # ... then the model is changed and solved plainly in primal mode: nothing of the heuristic run may survive
        apply_edit(env, m, 'replace-initial-condition')
        kw['return_primal_or_dual'] = 'primal'
    elif edit == 'options-middle-solve':
        # a solve in between passes solver options (accuracy, iteration limit, solver log): they belong to that call only
        pep.solve(wrapper=b1, verbose=2, **(dict(solver='SCS', eps=1e-3, max_iters=50000) if b1 == 'cvxpy' else {}))
    elif edit == 'failed-middle-solve':
        if env.sym:
            for st in (cstub, mstub):
                st.statuses = ('unbounded',)
            r = pep.solve(wrapper=b1, verbose=0)
            for st in (cstub, mstub):
                st.statuses = ('optimal',)
            if b1 == 'cvxpy':
                env.check(r is None, "a solve with a non-optimal status returned %r" % (r,), signature=tag + ":failed-returns")
        else:
            saved = list(pep.list_of_performance_metrics)
            pep.list_of_performance_metrics = [Expression()]
            pep.solve(wrapper=b1, verbose=0)
            pep.list_of_performance_metrics = saved
    else:
        apply_edit(env, m, edit)
    n_sym_before = env.eng.nvars if env.sym else 0
    t2, e2 = pipeline.safe_solve(env, pep, tag + ":solve2", wrapper=b2, **kw)
    if env.sym and edit == 'inaccurate-second-solve':
        cstub.statuses = ('optimal',)
    if e2:
        return e2
    if t2 is None:
        return "no value"
    if not env.sym:
        env.tol = 5e-4
    # ---- (a0) the leaves themselves carry the latest solution -------------------------------------------------
    sizes_ok = (pep.F_value is not None and pep.G_value is not None and len(pep.F_value) >= Expression.counter
                and len(pep.G_value) == Point.counter)
    env.check(sizes_ok, "after the last solve F_value / G_value do not have (at least) one entry per leaf expression / point of the model "
              "that was solved (they were not refreshed): %s / %s for %d / %d leaves"
              % (None if pep.F_value is None else len(pep.F_value), None if pep.G_value is None else len(pep.G_value),
                 Expression.counter, Point.counter), signature=tag + ":stale:instance-not-refreshed")
    if not sizes_ok:
        return "stale instance"
    if kw.get('return_primal_or_dual') == 'primal':
        env.check_eq(t2, pep.F_value[pep.objective.counter], "the value returned in primal mode is not the objective at the "
                     "instance of this solve (a number of an earlier solve was returned)", signature=tag + ":primal-value")
    for k, e in enumerate(Expression.list_of_leaf_expressions):
        env.check_eq(e._value, pep.F_value[k], "a leaf expression does not carry the value of the latest solve",
                     signature=tag + ":stale:leaf-expression")
    if env.sym:
        import re
        import z3 as _z3
        from vf.engine import lift as _lift
        stale = False
        for p_ in Point.list_of_leaf_points:
            for v in p_._value:
                lv = _lift(v)
                if lv is None:
                    continue
                for name in re.findall(r"o\.R!(\d+)", lv.sexpr()):
                    if int(name) <= n_sym_before:
                        stale = True
        env.check(not stale, "a leaf point still carries coordinates factorised from an earlier solve's Gram matrix",
                  signature=tag + ":stale:leaf-point")
    else:
        import numpy as np
        Gn = np.asarray(pep.G_value, dtype=float)
        w_, V_ = np.linalg.eigh(Gn)
        Gp = (V_ * np.maximum(w_, 0)) @ V_.T
        vals = [np.asarray(p_._value, dtype=float) for p_ in Point.list_of_leaf_points]
        bad = max(abs(float(np.dot(vals[i], vals[j])) - Gp[i, j]) for i in range(len(vals)) for j in range(len(vals)))
        env.check(bad <= 1e-6 * (1 + abs(Gp).max()), "leaf points do not reproduce the latest Gram matrix (max deviation %g)"
                  % bad, signature=tag + ":stale:leaf-point")
    # ---- (a) held objects evaluate to the latest solution ------------------------------------------------------
    P = {p: list(p._value) for p in Point.list_of_leaf_points}
    F = {e: e._value for e in Expression.list_of_leaf_expressions}
    dim = len(next(iter(P.values())))
    from PEPit.psd_matrix import PSDMatrix
    from PEPit.constraint import Constraint
    for nm, o in held.items():
        sig = tag + ":stale:" + type(o).__name__
        what = "%s (%s) held by the user and evaluated after solve 1 does not evaluate to the latest solution" % (
            type(o).__name__, nm)
        if isinstance(o, Point):
            v = o.eval()
            ref = den_point(o, P, dim)
            for k in range(dim):
                env.check_eq(v[k], ref[k], what, signature=sig)
        elif isinstance(o, Expression):
            env.check_eq(o.eval(), den_expr(o, P, F), what, signature=sig)
        elif isinstance(o, Constraint):
            env.check_eq(o.eval(), den_expr(o.expression, P, F), what, signature=sig)
        elif isinstance(o, PSDMatrix):
            v = o.eval()
            for i in range(o.shape[0]):
                for j in range(o.shape[1]):
                    env.check_eq(v[i, j], den_expr(o[i, j], P, F), what, signature=sig)
    for c in pep._list_of_constraints_sent_to_wrapper:
        env.check_eq(c.eval(), den_expr(c.expression, P, F), "a sent constraint evaluates to an earlier solution",
                     signature=tag + ":stale:sent-constraint")
    for psd in pep._list_of_psd_sent_to_wrapper:
        v = psd.eval()
        for i in range(psd.shape[0]):
            for j in range(psd.shape[1]):
                env.check_eq(v[i, j], den_expr(psd[i, j], P, F), "a sent LMI evaluates to an earlier solution",
                             signature=tag + ":stale:sent-lmi")
    # ---- (b, c) certificate of the last solve ---------------------------------------------------------------------
    spec2 = dict(spec)
    spec2['backend'] = b2
    spec2['return'] = kw.get('return_primal_or_dual', 'dual')
    if kw.get('dimension_reduction_heuristic'):
        spec2['dimred'] = 'trace'
    if env.sym:
        stub = mstub if b2 == 'mosek' else cstub
        # the duals of the last model solve: for the heuristic they come from the solve before the heuristic's
        k_last = len(stub.solves) - 1 - (1 if kw.get('dimension_reduction_heuristic') else 0)
        c01.check_certificate(env, m, t2, stub, spec2, kpool='kkt%d' % k_last, pid="C13")
    else:
        c01.concrete_check(env, m, t2, spec2, pid="C13")
    # ---- (d) nothing accumulates: same input as a freshly built equivalent model -------------------------------
    r_last = c12.record(env, m, b2)
    m_f = pipeline.build(env, spec)
    if edit in ('replace-initial-condition', 'add-metric', 'add-lmi', 'new-sample', 'change-parameter'):
        apply_edit(env, m_f, edit)
    elif edit in ('inaccurate-second-solve', 'heuristic-then-primal'):
        apply_edit(env, m_f, 'replace-initial-condition')
    tf, ef = pipeline.safe_solve(env, m_f.pep, tag + ":fresh", wrapper=b2, **kw)
    if ef:
        return ef
    r_fresh = c12.record(env, m_f, b2)
    if kw.get('dimension_reduction_heuristic') and b2 == 'mosek':
        pass
    ctag = tag.rsplit(":", 1)[0] + ":accumulates"
    # each solve creates a fresh objective leaf; the previous one stays behind as an unused scalar unknown.  Reported on
    # its own (known finding), and factored out of the row comparison by renumbering the USED function-value unknowns.
    env.check(r_last['nF'] == r_fresh['nF'], "after %d solves the solver receives %d function-value unknowns, a freshly built "
              "equivalent model %d (one unused leaf - the previous objective - is left behind per solve)"
              % (2 + (edit == 'failed-middle-solve'), r_last['nF'], r_fresh['nF']),
              signature=tag.rsplit(":", 1)[0] + ":unknowns-grow")
    if b2 == b1 and edit != 'inaccurate-second-solve':
        env.check(r_last['struct'].get('solver_call_options') == options_first,
                  "the last solve called the solver with options %s although it was called like the first solve, which used %s "
                  "(options of an earlier solve were kept)" % (r_last['struct'].get('solver_call_options'), options_first),
                  signature=tag + ":solver-options-kept")
    env.check(r_last['struct'].get('solver_call_options') == r_fresh['struct'].get('solver_call_options'),
              "the last solve called the solver with options %s, a freshly built equivalent model solved with the same call "
              "uses %s (options of an earlier solve were kept)" % (r_last['struct'].get('solver_call_options'),
                                                                  r_fresh['struct'].get('solver_call_options')),
              signature=tag + ":solver-options")
    rows_last, rows_fresh = _compress(r_last), _compress(r_fresh)
    if env.sym and kw.get('dimension_reduction_heuristic'):
        # the heuristic's own row `first optimum - tol - objective <= 0` carries the solver-output symbol of its own solve
        # (differently named in the two runs): its shape is C11's / C14's subject, here only its presence is compared
        from vf.engine import is_output_term, lift

        def split(rows):
            plain = [r for r in rows if not is_output_term(lift(r['const']))]
            return plain, len(rows) - len(plain)
        rows_last, n1 = split(rows_last)
        rows_fresh, n2 = split(rows_fresh)
        env.check(n1 == n2 == 1, "heuristic rows: %d after re-solve, %d in a fresh model (expected 1 and 1)" % (n1, n2),
                  signature=tag + ":heuristic-rows")
    env.check(len(rows_last) == len(rows_fresh) and r_last['psd'] == r_fresh['psd'],
              "after %d solves the solver receives %d rows / PSD variables %s; a freshly built equivalent model sends %d / %s"
              % (2 + (edit == 'failed-middle-solve'), len(rows_last), r_last['psd'], len(rows_fresh), r_fresh['psd']),
              signature=ctag)
    if len(rows_last) == len(rows_fresh) and r_last['psd'] == r_fresh['psd']:
        missing, extra = sdp.match_rows(env, rows_fresh, rows_last)
        env.check(not missing and not extra, "the data sent at the last solve differs from a freshly built equivalent model: "
                  "only fresh %s / only re-solved %s" % ([sdp.describe(r) for r in missing[:2]],
                                                        [sdp.describe(r) for r in extra[:2]]),
                  signature=tag + ":input-differs")
    return "%s" % edit


def _compress(rec):
    """rows with the used F indices renumbered 0..k-1 in increasing order (objective included)"""
    used = set()
    for kind, form, const in rec['rows']:
        used |= {k[1] for k in form if k[0] == 'F'}
    used |= {k[1] for k in rec['objective'][1] if k[0] == 'F'}
    ren = {old: new for new, old in enumerate(sorted(used))}
    out = []
    for kind, form, const in rec['rows']:
        out.append(dict(kind=kind, const=const,
                        form={(('F', ren[k[1]]) if k[0] == 'F' else k): v for k, v in form.items()}))
    return out


MODELS = [
    ('gd', dict(fclass='ssc', steps=['grad'])),
    ('lmi', dict(fclass='ssc', steps=['grad'], lmis=['sym2'], lmi_metric=False)),
    ('quad', dict(fclass='quad', steps=['grad'])),
    ('partition', dict(fclass='ssc', steps=['grad'], partition=2)),
    ('linop', dict(fclass='linop', steps=['grad'], value_metric=False)),
    # LMIs from all three sources at once: declared on the PEP, declared on a function, generated by the class
    ('lmi-mixed', dict(fclass='quad', steps=['grad'], lmis=['one'], function_lmi=True)),
    # a step's side constraint lives on a composite function (which the PEP did not declare itself)
    ('composite-inexact', dict(fclass='ssc', second='sc', steps=['inexact'])),
]


def cases(tier):
    cs = []
    for mname, spec in MODELS:
        for edit in EDITS:
            for be in (('cvxpy',) if tier == 'quick' and mname != 'gd' else ('cvxpy', 'mosek')):
                if tier == 'quick' and mname in ('quad', 'partition') and edit not in ('none', 'add-metric', 'switch-backend'):
                    continue
                if tier == 'quick' and mname == 'linop' and edit not in ('none', 'new-sample'):
                    continue
                if tier == 'quick' and mname in ('lmi-mixed', 'composite-inexact') and edit not in ('none', 'add-metric'):
                    continue
                if edit == 'inaccurate-second-solve' and (be != 'cvxpy' or mname not in ('gd', 'lmi')):
                    continue
                if edit == 'options-middle-solve' and (be != 'cvxpy' or mname not in ('gd', 'lmi')):
                    continue
                if edit == 'new-sample' and mname == 'partition':
                    # block leaf points are created at solve time: a sample added after a first solve gets later Gram
                    # indices than in a freshly built model - an equivalent SDP up to a permutation of the leaf points,
                    # which this check's row-by-row comparison does not factor out (stated bound, not a defect)
                    continue
                if edit == 'change-parameter' and mname not in ('gd', 'lmi'):
                    continue
                if edit == 'heuristic-then-primal' and mname not in ('gd', 'lmi'):
                    continue
                cs.append(dict(id="%s-%s-%s" % (mname, edit, be), mname=mname, spec=spec, edit=edit, backend=be,
                               input_zero_tests='generic', output_branches='first'))
    return cs


def main(tier, only=None):
    cs = cases(tier)
    if only:
        cs = [c for c in cs if only in c['id']]
    return runner.run_property(
        "C13", tier, "vf.props.c13", cs, opts=dict(mode='fork', max_paths=20000),
        assumptions=["each solve returns independent solver-output symbols (an adversary making successive solutions differ)",
                     "equivalent fresh model = the same builder + the same edit, solved once with the same options"],
        bounds=dict(solves="2 (3 with a failed middle solve)", edits=len(EDITS), models=len(MODELS),
                    outside="longer solve sequences; edits outside the library"))
