"""Shared machinery for the properties that run the whole solve pipeline (C01, C02, C05, C11-C14, C16, C09):
symbolic set-up (numpy shim + stand-in cvxpy / mosek + KKT contract stubs) and a library of PEP models whose
parameters and coefficients are symbolic."""
import os
import sys

HERE = os.path.dirname(os.path.abspath(__file__))
STANDINS = os.path.join(HERE, "standins")

_SYMBOLIC = [False]


def setup_symbolic():
    """Install the shim and put the stand-in packages first on sys.path (symbolic process only)."""
    if _SYMBOLIC[0]:
        return
    for name in ("cvxpy", "mosek"):
        if name in sys.modules and not getattr(sys.modules[name], 'STANDIN', False):
            raise RuntimeError("real %s already imported in the symbolic process" % name)
    if STANDINS not in sys.path:
        sys.path.insert(0, STANDINS)
    import cvxpy
    import mosek
    assert cvxpy.STANDIN and mosek.STANDIN
    from . import npshim
    npshim.install()
    _SYMBOLIC[0] = True


def setup_concrete():
    """Replay process: real numpy, real cvxpy."""
    import cvxpy  # noqa: F401  (real cvxpy, imported before any stand-in can be on the path)


def enable_mosek_emulator():
    """Replay of a MOSEK-back-end path: `mosek` = recording stand-in + numeric emulator (MOSEK is not installed here,
    so PEP.solve(wrapper='mosek') would otherwise silently fall back to cvxpy)."""
    import cvxpy  # noqa: F401
    if True:
        d = os.path.join(STANDINS, "mosek_only")
        os.makedirs(d, exist_ok=True)
        link = os.path.join(d, "mosek")
        if not os.path.exists(link):
            try:
                os.symlink(os.path.join(STANDINS, "mosek"), link)
            except FileExistsError:
                pass
        if d not in sys.path:
            sys.path.insert(0, d)
        import mosek
        from . import mosek_emulator
        mosek.OPTIMIZE_HOOK[0] = mosek_emulator.optimize


class Model:
    def __init__(self):
        self.pep = None
        self.functions = []
        self.points = {}       # name -> Point held by the user
        self.exprs = {}        # name -> Expression held by the user
        self.constraints = []  # user constraints (declared on the pep)
        self.fconstraints = []  # (function, constraint) declared on functions by steps
        self.lmis = []         # PSDMatrix objects added to the pep (in the order added)
        self.lmis_unadded = []
        self.flmis = []        # (function, PSDMatrix) declared on a function with Function.add_psd_matrix
        self.metrics = []
        self.params = {}
        self.partition = None
        self.partition2 = None
        self.log = []          # declaration log: (kind, object)


FCLASSES = {
    'ssc': ('PEPit.functions', 'SmoothStronglyConvexFunction', ('mu', 'L')),
    'sc': ('PEPit.functions', 'SmoothConvexFunction', ('L',)),
    'convex': ('PEPit.functions', 'ConvexFunction', ()),
    'strongly': ('PEPit.functions', 'StronglyConvexFunction', ('mu',)),
    'scl': ('PEPit.functions', 'SmoothConvexLipschitzFunction', ('L', 'M')),
    'lipschitz': ('PEPit.functions', 'ConvexLipschitzFunction', ('M',)),
    'quad': ('PEPit.functions', 'SmoothStronglyConvexQuadraticFunction', ('mu', 'L')),
    'qg': ('PEPit.functions', 'ConvexQGFunction', ('L',)),
    'rsi': ('PEPit.functions', 'RsiEbFunction', ('mu', 'L')),
    'smooth': ('PEPit.functions', 'SmoothFunction', ('L',)),
    'indicator': ('PEPit.functions', 'ConvexIndicatorFunction', ('D',)),
    'support': ('PEPit.functions', 'ConvexSupportFunction', ('M',)),
    'symlin': ('PEPit.operators', 'SymmetricLinearOperator', ('mu', 'L')),
    'skew': ('PEPit.operators', 'SkewSymmetricLinearOperator', ('L',)),
    'linop': ('PEPit.operators', 'LinearOperator', ('L',)),
    'monotone': ('PEPit.operators', 'MonotoneOperator', ()),
    'strmono': ('PEPit.operators', 'StronglyMonotoneOperator', ('mu',)),
    'coco': ('PEPit.operators', 'CocoerciveOperator', ('beta',)),
    'lipop': ('PEPit.operators', 'LipschitzOperator', ('L',)),
    'nonexp': ('PEPit.operators', 'NonexpansiveOperator', ()),
    'cocostr': ('PEPit.operators', 'CocoerciveStronglyMonotoneOperator', ('mu', 'beta')),
    'lipstr': ('PEPit.operators', 'LipschitzStronglyMonotoneOperator', ('mu', 'L')),
    'negcomo': ('PEPit.operators', 'NegativelyComonotoneOperator', ('rho',)),
}


def get_class(key):
    import importlib
    modname, cname, pnames = FCLASSES[key]
    return getattr(importlib.import_module(modname), cname), pnames


def class_params(env, key, tag=""):
    """symbolic class parameters with the documented admissibility as path hypotheses"""
    cls, pnames = get_class(key)
    p = {}
    if key == 'symlin':
        # eigenvalue bounds of a symmetric operator: any reals with mu <= L (the documentation puts no sign restriction)
        p['mu'] = env.real(tag + 'mu')
        p['L'] = env.real(tag + 'L')
        env.assume(env.le(p['mu'], p['L']))
        return cls, p
    for n in pnames:
        p[n] = env.real(tag + n, lo=0, lo_strict=(n in ('L', 'M', 'D', 'beta') or (n == 'mu' and key in ('rsi',))))
    if 'mu' in p and 'L' in p:
        env.assume(env.lt(p['mu'], p['L']))
    return cls, p


def build(env, spec):
    """Build one PEP model from a spec (all numbers symbolic).  Spec keys:
       fclass, second (None | class key -> composite F = f + w*h), stationary (bool), steps [..], cons [..], lmis [..],
       metrics (1|2), partition (None | d)"""
    from PEPit import PEP, Point, Expression
    from PEPit.psd_matrix import PSDMatrix
    from PEPit.primitive_steps import proximal_step, inexact_gradient_step
    m = Model()
    pep = PEP()
    m.pep = pep
    if spec.get('partition'):
        from PEPit.functions import BlockSmoothConvexFunction
        d = spec['partition']
        if spec.get('partition_direct'):
            from PEPit import BlockPartition
            part = BlockPartition(d)            # the public constructor instead of pep.declare_block_partition
        else:
            part = pep.declare_block_partition(d=d)
        m.partition = part
        Ls = [env.real("L%d" % k, lo=0, lo_strict=True) for k in range(d)]
        f = pep.declare_function(BlockSmoothConvexFunction, partition=part, L=Ls)
        m.params.update({"L%d" % k: Ls[k] for k in range(d)})
        if spec.get('second_partition'):
            m.partition2 = pep.declare_block_partition(d=spec['second_partition'])
    else:
        cls, p = class_params(env, spec['fclass'])
        m.params.update(p)
        f = pep.declare_function(cls, **p)
    m.functions.append(f)
    if spec.get('unused'):
        from PEPit.functions import ConvexFunction
        m.functions.append(pep.declare_function(ConvexFunction))   # declared, never evaluated
    F = f
    h = None
    if spec.get('second'):
        cls2, p2 = class_params(env, spec['second'], tag="h_")
        h = pep.declare_function(cls2, **p2)
        m.functions.append(h)
        w = env.real("w_h")
        if spec.get('composite_ops') == 'sub-div':
            env.assume(env.neg(env.eq(w, 0)))
            F = (f - (-h) / w)          # the other operators of the function algebra: -, unary -, /
        else:
            F = f + w * h
        m.functions.append(F)
        m.params.update(p2)
    x0 = pep.set_initial_point()
    m.points['x0'] = x0
    if spec.get('mid_build'):
        spec['mid_build']()         # harness callback in the middle of the construction (C12: earlier objects released here)
    R = env.real("R")
    if spec.get('stationary', True):
        xs = F.stationary_point()
        fs = F.value(xs)
        c0 = ((x0 - xs) ** 2 <= R)
    else:
        # no optimum declared by the user (classes that create their own stationary point while the class constraints
        # are generated): bounded initial gradient, metric = decrease of the function value
        xs = x0
        g_init, fs = F.oracle(x0)
        # 'negative': the initial gradient is bounded from BELOW and the metric is f(x_n) - f(x0): a negative optimum
        c0 = (g_init ** 2 >= R) if spec.get('negative') else (g_init ** 2 <= R)
    m.points['xs'] = xs
    pep.set_initial_condition(c0)
    m.constraints.append(c0)
    x = x0
    for si, st in enumerate(spec.get('steps', ['grad'])):
        gamma = env.real("gamma%d" % si)
        if st == 'grad' and spec.get('partition'):
            g, fx = F.oracle(x)
            x = x - gamma * m.partition.get_block(g, si % spec['partition'])
        elif st == 'grad':
            g, fx = F.oracle(x)
            x = x - gamma * g
        elif st == 'prox':
            env.assume(env.neg(env.eq(gamma, 0)))
            x, g, fx = proximal_step(x, h if h is not None else f, gamma)
        elif st == 'inexact':
            eps = env.real("eps%d" % si)
            x, d, fx = inexact_gradient_step(x, F, gamma, eps, notion=spec.get('notion', 'absolute'))
            m.fconstraints.append((F, F.list_of_constraints[-1]))
        else:
            raise ValueError(st)
        m.points['x%d' % (si + 1)] = x
    if spec['fclass'] == 'linop' and not spec.get('partition'):
        f.T.gradient(x0)        # (a LinearOperator without any sample of its transpose makes a 0x0 LMI that cvxpy rejects)
    if spec.get('second_partition'):
        m.partition2.get_block(x0, 0)      # a second partition that only decomposes the starting point
    fx = F.value(x) if spec.get('value_metric', True) else None
    if spec.get('extra_points'):
        # many leaf points (a large Gram matrix) but few constraints: exercises size-dependent code paths cheaply
        extra = [pep.set_initial_point() for _ in range(spec['extra_points'])]
        ce = (extra[0] * extra[-1] + extra[len(extra) // 2] ** 2 - x0 * extra[3] <= 1)
        pep.add_constraint(ce)
        m.constraints.append(ce)
        m.points['extra_last'] = extra[-1]
    # user constraints, written in all the ways the DSL allows
    e = (x - xs) ** 2
    m.exprs['dist'] = e
    for ci, ck in enumerate(spec.get('cons', [])):
        s = env.real("c%d" % ci)
        t = env.real("d%d" % ci)
        if not spec.get('cons_zero_forks', False):
            # zero / cancelling coefficients in declared constraints are C05's and C06's subject; here they would only
            # multiply the number of paths
            env.assume(env.neg(env.eq(s, 0)))
            env.assume(env.neg(env.eq(t, 0)))
        lhs = t * (x0 * x) + (fx if fx is not None else 0 * e)
        c = {'le': lambda: lhs <= s, 'ge': lambda: lhs >= s, 'eq': lambda: lhs == s, 'rle': lambda: s <= lhs,
             'rge': lambda: s >= lhs, 'ee': lambda: lhs <= e}[ck]()
        pep.add_constraint(c)
        m.constraints.append(c)
        if spec.get('dup'):
            pep.add_constraint(c)           # the same constraint object declared twice
            m.constraints.append(c)
    # LMIs
    if spec.get('lmi_unadded') and spec.get('lmi_unadded_first'):
        m.lmis_unadded.append(PSDMatrix([[e, 0], [0, 1]]))   # created first, never added to the problem
    pending = []
    for li, lk in enumerate(spec.get('lmis', [])):
        a = env.real("l%d" % li)
        t = Expression()
        m.exprs['t%d' % li] = t
        if lk == 'sym2':
            M = [[e, t], [t, a]]
        elif lk == 'nonsym2':
            M = [[a, t], [(x0 ** 2) / 2, 2]]
        elif lk == 'nonsym2b':          # same form in (0,1) and (1,0), written with the products mirrored
            M = [[e, x0 * x + t], [x * x0 + t, a]]
        elif lk == 'nonsym-const':      # (0,1) and (1,0) are different expressions with different constant terms
            t2 = Expression()
            m.exprs['t%d_b' % li] = t2
            M = [[e, t - a], [t2, 1]]
        elif lk == 'one':
            M = [[a - t]]
        elif lk == 'three':
            M = [[e, t, 0], [t, a, x0 * xs], [0, xs * x0, 1]]
        else:
            raise ValueError(lk)
        if spec.get('lmi_buffer', False):
            # the user fills ONE work array and declares it again for every LMI (same shape): each declaration must keep
            # the entries it was declared with
            import numpy as _np
            n_ = len(M)
            buf = m.__dict__.setdefault('_lmi_buffer', _np.empty((n_, n_), dtype=object))
            if buf.shape != (n_, n_):
                raise ValueError("lmi_buffer: LMIs of one model must have the same size")
            for i_ in range(n_):
                for j_ in range(n_):
                    buf[i_, j_] = M[i_][j_]
            pm = pep.add_psd_matrix(buf)
            m.lmis.append(pm)
            m.__dict__.setdefault('lmi_entries', []).append((pm, [list(r_) for r_ in M]))
        elif spec.get('lmi_objects', False):
            pm = PSDMatrix(M)
            pending.append(pm)
        else:
            pm = pep.add_psd_matrix(M)
            m.lmis.append(pm)
        if spec.get('lmi_cap', False):
            pep.add_constraint(t <= 1)
            m.constraints.append(pep.list_of_constraints[-1])
    if spec.get('function_lmi'):
        # an LMI declared on a function (not on the problem), optionally next to a function-level scalar constraint
        tf = Expression()
        m.exprs['tf'] = tf
        af = env.real("lf")
        target = F if spec.get('function_lmi') == 'composite' else f
        target.add_psd_matrix([[e, tf], [tf, af]])
        m.flmis.append((target, target.list_of_psd[-1]))
        if spec.get('function_lmi_with_constraint'):
            cf = (tf <= 1)
            target.add_constraint(cf)
            m.fconstraints.append((target, cf))
    if spec.get('lmi_unadded') and not spec.get('lmi_unadded_first'):
        m.lmis_unadded.append(PSDMatrix([[e, 0], [0, 1]]))
    if pending:
        order = list(reversed(pending)) if spec.get('lmi_reversed') else pending
        for pm in order:
            pep.add_psd_matrix(pm)
            m.lmis.append(pm)
    # metrics
    if fx is not None and spec.get('stationary', True):
        met = fx - fs
    elif fx is not None and spec.get('negative'):
        met = fx - fs
    elif fx is not None:
        met = fs - fx
    else:
        met = e
    if spec.get('lmis') and spec.get('lmi_metric', True):
        met = m.exprs['t0']
    if spec.get('null_accumulate'):
        # the accumulation idiom of the library itself (block_partition.py): start from the exported module-level zero and
        # add terms with += (on an immutable-value type `total += term` rebinds `total`, the shared zero is not touched)
        from PEPit import null_expression, null_point
        total = null_expression
        total += met
        total += e
        total -= e
        met = total
        acc = null_point
        acc += x0
        acc -= x0
    pep.set_performance_metric(met)
    m.metrics.append(met)
    if spec.get('metrics', 1) >= 2:
        met2 = e
        pep.set_performance_metric(met2)
        m.metrics.append(met2)
    m.F = F
    m.f = f
    m.h = h
    if spec.get('temporary_composite') and F is not f:
        # the user never keeps the composite function itself (steps called on an inline `f + w * h`): only the library's
        # registry refers to it from here on, and what was declared on it still belongs to the model
        m.fconstraints = [(None, c) for (_, c) in m.fconstraints]
        m.flmis = [(None, psd) for (_, psd) in m.flmis]
        m.functions = [g for g in m.functions if g.get_is_leaf()]
        m.F = None
        F = None
        import gc
        gc.collect()
    return m


def default_values():
    """generic input values used by replays when the counter-model's own parameters give an SDP the real numeric
    solver cannot solve (the structural choices of the counterexample are kept)"""
    base = dict(mu=0.1, L=1.0, M=1.0, D=1.0, beta=1.0, rho=0.5, R=1.0, w_h=1.0, h_mu=0.1, h_L=2.0, h_M=1.0, h_D=1.0,
                h_beta=1.0, h_rho=0.5, lf=2.0, R2=2.0, lnew=2.0, tol=0.05, reg=1e-3, a_before=0.5, a_after=-0.5, L0=1.0, L1=2.0, Lnew=3.0)
    for i in range(4):
        base.update({"gamma%d" % i: 0.5, "eps%d" % i: 0.1, "c%d" % i: 1.0, "d%d" % i: 0.5, "l%d" % i: 2.0})
    alt = dict(base)
    alt.update(dict(mu=0.25, L=2.0, R=2.0, w_h=0.5, R2=0.5, lnew=3.0, L0=2.0, L1=1.0))
    for i in range(4):
        alt.update({"gamma%d" % i: 0.25, "l%d" % i: 3.0, "c%d" % i: 2.0, "d%d" % i: -0.5})
    wide = dict(base)
    wide.update(dict(R=1e4, R2=1e4))      # badly scaled instance: Gram eigenvalues spread over more than 1e3
    return [base, alt, wide]


def safe_solve(env, pep, tag, **kw):
    """pep.solve(...) where an exception of the real code becomes a failed claim (signature <tag>:raises-<Type>[:where]).
    -> (value, error kind or None)"""
    import traceback
    from . import engine as E
    try:
        return pep.solve(**kw), None
    except Exception as ex:
        if isinstance(ex, E.Abort) or type(ex).__name__ == 'ReplayMismatch':
            raise
        tb = traceback.extract_tb(ex.__traceback__)
        where = "%s:%s" % (os.path.basename(tb[-1].filename), tb[-1].name)
        sig = "%s:raises-%s:%s" % (tag, type(ex).__name__, where)
        env.check(False, "PEP.solve(%s) raised %s: %s (in %s, line: %s)" % (
            ", ".join("%s=%r" % (k, v) for k, v in kw.items() if k in ('wrapper', 'return_primal_or_dual',
                                                                      'dimension_reduction_heuristic')),
            type(ex).__name__, str(ex)[:160], where, tb[-1].line), signature=sig)
        return None, sig


class ConcreteParamsEnv:
    """wraps an env so that inputs take the default concrete values (models whose coefficients must pass through C
    libraries - e.g. scipy.sparse - or that are too large for symbolic coefficients; structure is still checked)"""

    def __init__(self, env):
        self._env = env
        self.sym = env.sym
        self._vals = default_values()[0]

    def real(self, name, **kw):
        return float(self._vals.get(name, 1.0))

    def assume(self, *a, **kw):
        pass

    def __getattr__(self, n):
        return getattr(self._env, n)
