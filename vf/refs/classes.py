"""References for the function / operator classes, written from the class documentation and the cited interpolation
theorems, independently of the code of add_class_constraints:

 * `reference(key, f, params)`      -> the conditions the class documents, instantiated on every REQUIRED pair / tuple of the
                                     distinct recorded samples (C04, C17);
 * `FAMILIES[key]`                  -> parametric families of REAL members of the class (C03, C09): given the recorded
                                     samples they assign real values to every leaf point / leaf expression.
"""
import itertools

from vf.pipeline import FCLASSES, get_class


# =====================================================================================================================
# C04: documented conditions on required pairs
# =====================================================================================================================

def _ordered_pairs(pts):
    return [(a, b) for a in pts for b in pts if a is not b]


def _unordered_pairs(pts):
    return [(pts[i], pts[j]) for i in range(len(pts)) for j in range(i + 1, len(pts))]


def is_stationary(triplet):
    return len(triplet[1].decomposition_dict) == 0


def reference(key, f, p):
    """-> dict(scalar=[(condition name, tuple of sample triplets, Constraint)], lmis=[list of rows of Expressions])

    Pairs range over the DISTINCT recorded samples `f.list_of_points` (objects, not list indices)."""
    pts = list(f.list_of_points)
    out = []
    lmis = []

    def each_ordered(name, mk):
        for a, b in _ordered_pairs(pts):
            out.append((name, (a, b), mk(a, b)))

    def each_unordered(name, mk):
        for a, b in _unordered_pairs(pts):
            out.append((name, (a, b), mk(a, b)))

    def each_single(name, mk):
        for a in pts:
            out.append((name, (a,), mk(a)))

    def convexity(a, b):
        (xi, gi, fi), (xj, gj, fj) = a, b
        return fi >= fj + gj * (xi - xj)

    if key == 'convex':
        each_ordered('convexity', convexity)
    elif key == 'strongly':
        mu = p['mu']

        def c(a, b):
            (xi, gi, fi), (xj, gj, fj) = a, b
            return fi >= fj + gj * (xi - xj) + mu / 2 * (xi - xj) ** 2
        each_ordered('strong_convexity', c)
    elif key == 'sc':
        L = p['L']

        def c(a, b):
            (xi, gi, fi), (xj, gj, fj) = a, b
            return fi >= fj + gj * (xi - xj) + 1 / (2 * L) * (gi - gj) ** 2
        each_ordered('smoothness_convexity', c)
    elif key == 'ssc':
        mu, L = p['mu'], p['L']

        def c(a, b):
            (xi, gi, fi), (xj, gj, fj) = a, b
            return fi >= fj + gj * (xi - xj) + 1 / (2 * L) * (gi - gj) ** 2 \
                + mu / (2 * (1 - mu / L)) * (xi - xj - 1 / L * (gi - gj)) ** 2
        each_ordered('smoothness_strong_convexity', c)
    elif key == 'smooth':
        L = p['L']

        def c(a, b):
            (xi, gi, fi), (xj, gj, fj) = a, b
            return fi >= fj - L / 4 * (xi - xj) ** 2 + 1 / 2 * (gi + gj) * (xi - xj) + 1 / (4 * L) * (gi - gj) ** 2
        each_ordered('smoothness', c)
    elif key == 'lipschitz':
        M = p['M']
        each_single('lipschitz_continuity', lambda a: a[1] ** 2 <= M ** 2)
        each_ordered('convexity', convexity)
    elif key == 'scl':
        L, M = p['L'], p['M']

        def c(a, b):
            (xi, gi, fi), (xj, gj, fj) = a, b
            return fi >= fj + gj * (xi - xj) + 1 / (2 * L) * (gi - gj) ** 2
        each_ordered('smoothness_convexity', c)
        each_single('lipschitz_continuity', lambda a: a[1] ** 2 <= M ** 2)
    elif key == 'indicator':
        D = p.get('D')
        each_single('value', lambda a: a[2] == 0)
        each_ordered('convexity', lambda a, b: b[1] * (a[0] - b[0]) <= 0)
        if D is not None:
            each_ordered('diameter', lambda a, b: (a[0] - b[0]) ** 2 <= D ** 2)
    elif key == 'support':
        M = p.get('M')
        each_single('fenchel_value', lambda a: a[1] * a[0] - a[2] == 0)
        if M is not None:
            each_single('lipschitz_continuity', lambda a: a[1] ** 2 <= M ** 2)
        each_ordered('convexity', lambda a, b: b[0] * (a[1] - b[1]) <= 0)
    elif key == 'qg':
        L = p['L']
        stat = [t for t in pts if is_stationary(t)]
        for s in stat:
            for b in pts:
                if b is s:
                    continue
                (xs, gs, fs), (xj, gj, fj) = s, b
                out.append(('qg_convexity', (s, b), fs >= fj + gj * (xs - xj) + 1 / (2 * L) * gj ** 2))
        each_ordered('convexity', convexity)
    elif key == 'rsi':
        mu, L = p['mu'], p['L']
        stat = [t for t in pts if is_stationary(t)]
        for s in stat:
            for b in pts:
                if b is s:
                    continue
                (xs, gs, fs), (xj, gj, fj) = s, b
                out.append(('rsi', (s, b), (gj - gs) * (xj - xs) >= mu * (xj - xs) ** 2))
                out.append(('eb', (s, b), (gj - gs) ** 2 <= L ** 2 * (xj - xs) ** 2))
    elif key == 'quad':
        mu, L = p['mu'], p['L']
        xs, _, fs = f.list_of_stationary_points[0]
        each_single('value', lambda a: a[2] - fs == 0.5 * (a[0] - xs) * a[1])
        each_unordered('symmetry', lambda a, b: (a[0] - xs) * b[1] == (b[0] - xs) * a[1])
        T = [[(L + mu) * a[1] * (b[0] - xs) - a[1] * b[1] - mu * L * (a[0] - xs) * (b[0] - xs) for b in pts] for a in pts]
        lmis.append(T)
    elif key == 'monotone':
        each_unordered('monotonicity', lambda a, b: (a[1] - b[1]) * (a[0] - b[0]) >= 0)
    elif key == 'strmono':
        mu = p['mu']
        each_unordered('strong_monotonicity', lambda a, b: (a[1] - b[1]) * (a[0] - b[0]) >= mu * (a[0] - b[0]) ** 2)
    elif key == 'coco':
        beta = p['beta']
        each_unordered('cocoercivity', lambda a, b: (a[1] - b[1]) * (a[0] - b[0]) >= beta * (a[1] - b[1]) ** 2)
    elif key == 'lipop':
        L = p['L']
        each_unordered('lipschitz_continuity', lambda a, b: (a[1] - b[1]) ** 2 <= L ** 2 * (a[0] - b[0]) ** 2)
    elif key == 'nonexp':
        each_unordered('nonexpansiveness', lambda a, b: (a[1] - b[1]) ** 2 <= (a[0] - b[0]) ** 2)
        if getattr(f, 'v', None) is not None:
            v = f.v
            each_single('infimal_displacement_vector', lambda a: v ** 2 <= (a[0] - a[1]) * v)
    elif key == 'cocostr':
        mu, beta = p['mu'], p['beta']
        each_unordered('cocoercivity', lambda a, b: (a[1] - b[1]) * (a[0] - b[0]) >= beta * (a[1] - b[1]) ** 2)
        each_unordered('strong_monotonicity', lambda a, b: (a[1] - b[1]) * (a[0] - b[0]) >= mu * (a[0] - b[0]) ** 2)
    elif key == 'lipstr':
        mu, L = p['mu'], p['L']
        each_unordered('strong_monotonicity', lambda a, b: (a[1] - b[1]) * (a[0] - b[0]) >= mu * (a[0] - b[0]) ** 2)
        each_unordered('lipschitz_continuity', lambda a, b: (a[1] - b[1]) ** 2 <= L ** 2 * (a[0] - b[0]) ** 2)
    elif key == 'negcomo':
        rho = p['rho']
        each_unordered('negative_comonotonicity',
                       lambda a, b: (a[1] - b[1]) * (a[0] - b[0]) + rho * (a[1] - b[1]) ** 2 >= 0)
    elif key == 'symlin':
        mu, L = p['mu'], p['L']
        each_unordered('symmetric_linearity', lambda a, b: a[0] * b[1] == b[0] * a[1])
        lmis.append([[L * a[1] * b[0] - a[1] * b[1] - mu * L * a[0] * b[0] + mu * a[0] * b[1] for b in pts] for a in pts])
    elif key == 'skew':
        L = p['L']
        # <x_i, A x_j> = -<x_j, A x_i> for ALL i, j - including i = j, where it says <x_i, A x_i> = 0
        each_unordered('antisymmetric_linearity', lambda a, b: a[0] * b[1] == -(b[0] * a[1]))
        each_single('antisymmetric_linearity', lambda a: a[0] * a[1] == 0)
        lmis.append([[L ** 2 * a[0] * b[0] - a[1] * b[1] for b in pts] for a in pts])
    elif key == 'linop':
        L = p['L']
        tpts = list(f.T.list_of_points)
        for a in pts:
            for b in tpts:
                out.append(('adjoint', (a, b), a[0] * b[1] == a[1] * b[0]))
        lmis.append([[L ** 2 * a[0] * b[0] - a[1] * b[1] for b in pts] for a in pts])
        lmis.append([[L ** 2 * a[0] * b[0] - a[1] * b[1] for b in tpts] for a in tpts])
    elif key == 'blocksmooth':
        part = f.partition
        Ls = p['L']
        for k in range(part.get_nb_blocks()):
            def c(a, b, k=k):
                (xi, gi, fi), (xj, gj, fj) = a, b
                return fi >= fj + gj * (xi - xj) + 1 / (2 * Ls[k]) * (part.get_block(gi, k) - part.get_block(gj, k)) ** 2
            each_ordered('smoothness_convexity_block_%d' % k, c)
    else:
        raise KeyError(key)
    return dict(scalar=out, lmis=lmis)


ALL_KEYS = sorted(FCLASSES) + ['blocksmooth']


# =====================================================================================================================
# C03: real members
# =====================================================================================================================

class Family:
    """A parametric family of real members.  `bind(env, params)` declares the family's shape symbols with the class
    condition as hypotheses; then for every recorded triplet `value(x)`, `grad(x, env, tag)` give f(x) and an admissible
    (sub)gradient at the real point x (a list of coordinates); `argmin()` gives a stationary point if one exists."""
    dim = 1
    has_min = True

    def bind(self, env, p):
        raise NotImplementedError


class Quad1D(Family):
    """f(x) = a/2 (x-c)^2 + b with curvature a in the class's interval"""

    def __init__(self, lo, hi):
        self.lo, self.hi = lo, hi

    def bind(self, env, p):
        self.a = env.real("m_a")
        self.c = env.real("m_c")
        self.b = env.real("m_b")
        lo, hi = self.lo(p), self.hi(p)
        if lo is not None:
            env.assume(env.ge(self.a, lo))
        if hi is not None:
            env.assume(env.le(self.a, hi))

    def value(self, x):
        return self.a / 2 * (x[0] - self.c) * (x[0] - self.c) + self.b

    def grad(self, x, env, tag):
        return [self.a * (x[0] - self.c)]

    def argmin(self, env):
        return [self.c]


class Affine1D(Family):
    """f(x) = p x + q (convex, L-smooth for every L, |p|-Lipschitz)"""
    has_min = False

    def __init__(self, bound=None):
        self.bound = bound

    def bind(self, env, p):
        self.p = env.real("m_p")
        self.q = env.real("m_q")
        if self.bound:
            M = self.bound(p)
            env.assume(env.le(self.p, M))
            env.assume(env.ge(self.p, -M))

    def value(self, x):
        return self.p * x[0] + self.q

    def grad(self, x, env, tag):
        return [self.p]


class MaxAffine1D(Family):
    """f(x) = max(p1 x + q1, p2 x + q2), p1 < p2; at the kink any slope in [p1, p2] is a subgradient"""

    def __init__(self, bound=None):
        self.bound = bound

    def bind(self, env, p):
        self.p1, self.q1 = env.real("m_p1"), env.real("m_q1")
        self.p2, self.q2 = env.real("m_p2"), env.real("m_q2")
        env.assume(env.lt(self.p1, self.p2))
        if self.bound:
            M = self.bound(p)
            env.assume(env.ge(self.p1, -M))
            env.assume(env.le(self.p2, M))

    def _region(self, x, env, tag):
        r = env.choose(3, 'piece-' + tag)       # 0: left piece, 1: right piece, 2: kink
        d = (self.p2 - self.p1) * x[0] + (self.q2 - self.q1)    # >= 0  <=>  right piece is the max
        if r == 0:
            env.assume(env.lt(d, 0))
        elif r == 1:
            env.assume(env.lt(0, d))
        else:
            env.assume(env.eq(d, 0))
        return r

    def value_grad(self, x, env, tag):
        r = self._region(x, env, tag)
        if r == 0:
            return self.p1 * x[0] + self.q1, [self.p1]
        if r == 1:
            return self.p2 * x[0] + self.q2, [self.p2]
        th = env.real("m_theta_" + tag, lo=0, hi=1)
        return self.p1 * x[0] + self.q1, [th * self.p1 + (1 - th) * self.p2]

    def argmin(self, env):
        env.assume(env.le(self.p1, 0))
        env.assume(env.le(0, self.p2))
        return [(self.q1 - self.q2) / (self.p2 - self.p1)]

    def value_at_min(self, x):
        return self.p1 * x[0] + self.q1


class IndicatorInterval(Family):
    """indicator of [lo, hi]: value 0 on the interval, normal-cone subgradients"""

    def __init__(self, diam=None):
        self.diam = diam

    def bind(self, env, p):
        self.lo, self.hi = env.real("m_lo"), env.real("m_hi")
        env.assume(env.lt(self.lo, self.hi))
        if self.diam and self.diam(p) is not None:
            env.assume(env.le(self.hi - self.lo, self.diam(p)))

    def value_grad(self, x, env, tag):
        r = env.choose(3, 'where-' + tag)
        if r == 0:
            env.assume(env.lt(self.lo, x[0]))
            env.assume(env.lt(x[0], self.hi))
            return 0, [0]
        n = env.real("m_n_" + tag, lo=0)
        if r == 1:
            env.assume(env.eq(x[0], self.lo))
            return 0, [-n]
        env.assume(env.eq(x[0], self.hi))
        return 0, [n]

    def argmin(self, env):
        t = env.real("m_t", lo=0, hi=1)
        return [self.lo + t * (self.hi - self.lo)]

    def value_at_min(self, x):
        return 0


class SupportInterval(Family):
    """support function of [lo, hi]: f(x) = max(lo x, hi x)"""

    def __init__(self, bound=None):
        self.bound = bound

    def bind(self, env, p):
        self.lo, self.hi = env.real("m_lo"), env.real("m_hi")
        env.assume(env.lt(self.lo, self.hi))
        if self.bound and self.bound(p) is not None:
            M = self.bound(p)
            env.assume(env.ge(self.lo, -M))
            env.assume(env.le(self.hi, M))

    def value_grad(self, x, env, tag):
        r = env.choose(3, 'sign-' + tag)
        if r == 0:
            env.assume(env.lt(0, x[0]))
            return self.hi * x[0], [self.hi]
        if r == 1:
            env.assume(env.lt(x[0], 0))
            return self.lo * x[0], [self.lo]
        env.assume(env.eq(x[0], 0))
        th = env.real("m_theta_" + tag, lo=0, hi=1)
        return 0, [th * self.lo + (1 - th) * self.hi]

    def argmin(self, env):
        env.assume(env.le(self.lo, 0))
        env.assume(env.le(0, self.hi))
        return [0]

    def value_at_min(self, x):
        return 0


class AffineOp1D(Family):
    """operator x -> a x + b with the class condition on a"""
    has_min = False

    def __init__(self, cond):
        self.cond = cond

    def bind(self, env, p):
        self.a, self.b = env.real("m_a"), env.real("m_b")
        for c in self.cond(env, self.a, p):
            env.assume(c)

    def value(self, x):
        return 0

    def grad(self, x, env, tag):
        return [self.a * x[0] + self.b]


class RotOp2D(Family):
    """operator x -> (p + iq) x + b on R^2 = C with the class condition on (p, q)"""
    dim = 2
    has_min = False

    def __init__(self, cond):
        self.cond = cond

    def bind(self, env, p):
        self.p, self.q = env.real("m_p"), env.real("m_q")
        self.b = [env.real("m_b0"), env.real("m_b1")]
        for c in self.cond(env, self.p, self.q, p):
            env.assume(c)

    def value(self, x):
        return 0

    def grad(self, x, env, tag):
        return [self.p * x[0] - self.q * x[1] + self.b[0], self.q * x[0] + self.p * x[1] + self.b[1]]


class LinearOp1D(Family):
    """linear operator x -> a x (and its adjoint u -> a u)"""
    has_min = False

    def __init__(self, cond):
        self.cond = cond

    def bind(self, env, p):
        self.a = env.real("m_a")
        for c in self.cond(env, self.a, p):
            env.assume(c)

    def value(self, x):
        return 0

    def grad(self, x, env, tag):
        return [self.a * x[0]]


class SkewOp2D(Family):
    """skew-symmetric x -> q (-x2, x1), |q| <= L"""
    dim = 2
    has_min = False

    def bind(self, env, p):
        self.q = env.real("m_q")
        env.assume(env.le(self.q, p['L']))
        env.assume(env.ge(self.q, -p['L']))

    def value(self, x):
        return 0

    def grad(self, x, env, tag):
        return [-self.q * x[1], self.q * x[0]]


class SepQuad2D(Family):
    """separable quadratic sum_k a_k/2 (x_k - c_k)^2, block k = coordinate k, a_k in [0, L_k]"""
    dim = 2

    def bind(self, env, p):
        self.a = [env.real("m_a0"), env.real("m_a1")]
        self.c = [env.real("m_c0"), env.real("m_c1")]
        for k in range(2):
            env.assume(env.ge(self.a[k], 0))
            env.assume(env.le(self.a[k], p['L'][k]))

    def value(self, x):
        return sum(self.a[k] / 2 * (x[k] - self.c[k]) * (x[k] - self.c[k]) for k in range(2))

    def grad(self, x, env, tag):
        return [self.a[k] * (x[k] - self.c[k]) for k in range(2)]

    def argmin(self, env):
        return list(self.c)


def _quad(lo, hi):
    return Quad1D(lo, hi)


def _abs_le(env, a, b):
    return [env.le(a, b), env.ge(a, -b)]


FAMILIES = {
    'convex': [('quad', lambda: _quad(lambda p: 0, lambda p: None)), ('maxaffine', lambda: MaxAffine1D()),
               ('affine', lambda: Affine1D())],
    'strongly': [('quad', lambda: _quad(lambda p: p['mu'], lambda p: None))],
    'sc': [('quad', lambda: _quad(lambda p: 0, lambda p: p['L'])), ('affine', lambda: Affine1D())],
    'ssc': [('quad', lambda: _quad(lambda p: p['mu'], lambda p: p['L']))],
    'smooth': [('quad', lambda: _quad(lambda p: -p['L'], lambda p: p['L']))],
    'lipschitz': [('maxaffine', lambda: MaxAffine1D(lambda p: p['M'])), ('affine', lambda: Affine1D(lambda p: p['M']))],
    'scl': [('affine', lambda: Affine1D(lambda p: p['M']))],
    'indicator': [('interval', lambda: IndicatorInterval(lambda p: p.get('D')))],
    'support': [('interval', lambda: SupportInterval(lambda p: p.get('M')))],
    'qg': [('quad', lambda: _quad(lambda p: 0, lambda p: p['L']))],
    'rsi': [('quad', lambda: _quad(lambda p: p['mu'], lambda p: p['L']))],
    'quad': [('quad', lambda: _quad(lambda p: p['mu'], lambda p: p['L']))],
    'monotone': [('affine', lambda: AffineOp1D(lambda env, a, p: [env.ge(a, 0)])),
                 ('rot', lambda: RotOp2D(lambda env, pp, q, p: [env.ge(pp, 0)]))],
    'strmono': [('affine', lambda: AffineOp1D(lambda env, a, p: [env.ge(a, p['mu'])])),
                ('rot', lambda: RotOp2D(lambda env, pp, q, p: [env.ge(pp, p['mu'])]))],
    'coco': [('affine', lambda: AffineOp1D(lambda env, a, p: [env.ge(a, p['beta'] * a * a)])),
             ('rot', lambda: RotOp2D(lambda env, pp, q, p: [env.ge(pp, p['beta'] * (pp * pp + q * q))]))],
    'lipop': [('affine', lambda: AffineOp1D(lambda env, a, p: _abs_le(env, a, p['L']))),
              ('rot', lambda: RotOp2D(lambda env, pp, q, p: [env.le(pp * pp + q * q, p['L'] * p['L'])]))],
    'nonexp': [('affine', lambda: AffineOp1D(lambda env, a, p: _abs_le(env, a, 1))),
               ('rot', lambda: RotOp2D(lambda env, pp, q, p: [env.le(pp * pp + q * q, 1)]))],
    'cocostr': [('affine', lambda: AffineOp1D(lambda env, a, p: [env.ge(a, p['beta'] * a * a), env.ge(a, p['mu'])])),
                ('rot', lambda: RotOp2D(lambda env, pp, q, p: [env.ge(pp, p['beta'] * (pp * pp + q * q)),
                                                               env.ge(pp, p['mu'])]))],
    'lipstr': [('affine', lambda: AffineOp1D(lambda env, a, p: _abs_le(env, a, p['L']) + [env.ge(a, p['mu'])])),
               ('rot', lambda: RotOp2D(lambda env, pp, q, p: [env.le(pp * pp + q * q, p['L'] * p['L']),
                                                              env.ge(pp, p['mu'])]))],
    'negcomo': [('affine', lambda: AffineOp1D(lambda env, a, p: [env.ge(a, -p['rho'] * a * a)])),
                ('rot', lambda: RotOp2D(lambda env, pp, q, p: [env.ge(pp, -p['rho'] * (pp * pp + q * q))]))],
    'symlin': [('linear', lambda: LinearOp1D(lambda env, a, p: [env.ge(a, p['mu']), env.le(a, p['L'])]))],
    'skew': [('linear', lambda: LinearOp1D(lambda env, a, p: [env.eq(a, 0)])), ('skew2d', lambda: SkewOp2D())],
    'linop': [('linear', lambda: LinearOp1D(lambda env, a, p: _abs_le(env, a, p['L'])))],
    'blocksmooth': [('sepquad', lambda: SepQuad2D())],
}


# ---------------------------------------------------------------------------------------------------------------------
# membership form (C09): `member(fam, xv, gv, env, tag)` adds the hypotheses "gv is an admissible (sub)gradient / operator
# value of the member at the real point xv" and returns f(xv).  Used when the model's own point algebra determines g
# (implicit steps, remainders of composite stationary points), where g cannot simply be assigned.
# ---------------------------------------------------------------------------------------------------------------------

def member(fam, xv, gv, env, tag):
    if isinstance(fam, MaxAffine1D):
        r = fam._region(xv, env, tag)
        if r == 0:
            env.assume(env.eq(gv[0], fam.p1))
            return fam.p1 * xv[0] + fam.q1
        if r == 1:
            env.assume(env.eq(gv[0], fam.p2))
            return fam.p2 * xv[0] + fam.q2
        env.assume(env.ge(gv[0], fam.p1))
        env.assume(env.le(gv[0], fam.p2))
        return fam.p1 * xv[0] + fam.q1
    if isinstance(fam, IndicatorInterval):
        r = env.choose(3, 'where-' + tag)
        if r == 0:
            env.assume(env.lt(fam.lo, xv[0]))
            env.assume(env.lt(xv[0], fam.hi))
            env.assume(env.eq(gv[0], 0))
        elif r == 1:
            env.assume(env.eq(xv[0], fam.lo))
            env.assume(env.le(gv[0], 0))
        else:
            env.assume(env.eq(xv[0], fam.hi))
            env.assume(env.ge(gv[0], 0))
        return 0
    if isinstance(fam, SupportInterval):
        r = env.choose(3, 'sign-' + tag)
        if r == 0:
            env.assume(env.lt(0, xv[0]))
            env.assume(env.eq(gv[0], fam.hi))
            return fam.hi * xv[0]
        if r == 1:
            env.assume(env.lt(xv[0], 0))
            env.assume(env.eq(gv[0], fam.lo))
            return fam.lo * xv[0]
        env.assume(env.eq(xv[0], 0))
        env.assume(env.ge(gv[0], fam.lo))
        env.assume(env.le(gv[0], fam.hi))
        return 0
    ref = fam.grad(xv, env, tag)
    for a, b in zip(gv, ref):
        env.assume(env.eq(a, b))
    return fam.value(xv)


def is_smooth_family(fam):
    return not isinstance(fam, (MaxAffine1D, IndicatorInterval, SupportInterval))


CLASS_KEY_BY_NAME = {v[1]: k for k, v in FCLASSES.items()}
CLASS_KEY_BY_NAME['BlockSmoothConvexFunction'] = 'blocksmooth'
