"""Operator-overloading symbolic executor for PEPit.

`SymReal` is a `float` subclass carrying a z3 Real term, so PEPit's own `isinstance(x, float)` guards take
the branch they take for a user's float and the *unmodified* source in /repo runs on it.  Comparisons
return a `SymBool`; its `__bool__` asks the engine, which explores both sides by depth-first
re-execution under a decision schedule.  Hypotheses live in named pools (see DESIGN.md 2.2).
"""
import fractions
import math
import time
import z3


class Abort(BaseException):
    """Current path is infeasible / cut.  BaseException so that PEPit's `except Exception` never eats it."""


class Inconclusive(BaseException):
    """An assertion query came back `unknown` (or a bound was exceeded)."""

    def __init__(self, what):
        super().__init__(what)
        self.what = what


ENGINE = None  # the engine of the path currently executing (one per process)

import os as _os
CVC5_RATE = float(_os.environ.get("VERIF_CVC5_RATE", "0") or 0)      # fraction of assertion queries re-run with cvc5
CVC5_SEED = int(_os.environ.get("VERIF_SEED", "0") or 0)

OUT_PREFIX = "o."  # names of solver-output symbols start with this (zero tests on them are not forked)


def is_output_term(t):
    """Does the z3 term mention a solver-output symbol?"""
    eng = ENGINE
    cache = eng._out_cache if eng is not None else {}
    tid = t.get_id()
    if tid in cache:
        return cache[tid][1]
    seen = set()
    st = [t]
    res = False
    while st:
        u = st.pop()
        uid = u.get_id()
        if uid in seen:
            continue
        seen.add(uid)
        if z3.is_const(u) and u.decl().kind() == z3.Z3_OP_UNINTERPRETED:
            if u.decl().name().startswith(OUT_PREFIX):
                res = True
                break
        st.extend(u.children())
    cache[tid] = (t, res)   # keep the term alive: z3 re-uses the ids of freed ASTs
    return res


RATIONALIZE = [False]


def lift(x):
    """Python / numpy scalar or SymReal -> z3 Real term (None if not a scalar)."""
    if isinstance(x, SymReal):
        return x.t
    if isinstance(x, bool):
        return z3.RealVal(int(x))
    if isinstance(x, int):
        return z3.RealVal(x)
    if isinstance(x, float):
        if math.isinf(x) or math.isnan(x):
            raise OverflowError("non-finite float in symbolic arithmetic")
        if RATIONALIZE[0] and x != 0.0:
            # stated modelling choice (C09): a float constant within 4 ulp of a rational with denominator <= 10^4 is read as
            # that rational (1/3, 2/3 * 1/2 ... as written in the examples and multiplied in binary64 by the library)
            fr = fractions.Fraction(x).limit_denominator(10 ** 4)
            if abs(float(fr) - x) <= 4 * abs(x) * 2.0 ** -52:
                return z3.Q(fr.numerator, fr.denominator)
        return z3.Q(*x.as_integer_ratio())
    try:
        import numpy as np
        if isinstance(x, np.floating):
            return z3.Q(*float(x).as_integer_ratio())
        if isinstance(x, np.integer):
            return z3.RealVal(int(x))
        if isinstance(x, np.ndarray) and x.shape == ():
            return lift(x.item())
    except ImportError:
        pass
    if z3.is_expr(x):
        return x
    return None


class SymBool:
    """Result of a comparison on symbolic reals.  Truth value is decided by the engine (fork)."""

    def __init__(self, c, zero_test=False):
        self.c = c
        self.zero_test = zero_test

    def __bool__(self):
        eng = ENGINE
        if eng is None:
            raise RuntimeError("SymBool evaluated outside an engine")
        return eng.decide(self.c, zero_test=self.zero_test)

    def __and__(self, o):
        return SymBool(z3.And(self.c, cond_of(o)))

    def __or__(self, o):
        return SymBool(z3.Or(self.c, cond_of(o)))

    def __invert__(self):
        return SymBool(z3.Not(self.c))

    def __repr__(self):
        return "SymBool(%s)" % self.c


def cond_of(x):
    """SymBool / bool / z3 Bool -> z3 Bool (never forks)."""
    if isinstance(x, SymBool):
        return x.c
    if isinstance(x, bool):
        return z3.BoolVal(x)
    try:
        import numpy as np
        if isinstance(x, np.bool_):
            return z3.BoolVal(bool(x))
    except ImportError:
        pass
    if z3.is_expr(x):
        return x
    raise TypeError("not a condition: %r" % (x,))


def _is_zero_literal(o):
    return type(o) in (int, float) and o == 0


class SymReal(float):
    def __new__(cls, t):
        o = float.__new__(cls, float('nan'))
        o.t = t
        return o

    # ---- arithmetic -------------------------------------------------------------------------------
    def _bin(self, other, f, rev=False):
        o = lift(other)
        if o is None:
            try:
                import numpy as np
                if isinstance(other, np.ndarray):
                    # scalar (op) array: element-wise, result is an object array (numpy itself would call float())
                    out = np.empty(other.shape, dtype=object)
                    for idx in np.ndindex(*other.shape):
                        out[idx] = self._bin(other[idx], f, rev)
                    return out
            except ImportError:
                pass
            return NotImplemented
        return SymReal(f(o, self.t) if rev else f(self.t, o))

    def __add__(s, o):
        return s._bin(o, lambda a, b: a + b)

    def __radd__(s, o):
        return s._bin(o, lambda a, b: a + b, True)

    def __sub__(s, o):
        return s._bin(o, lambda a, b: a - b)

    def __rsub__(s, o):
        return s._bin(o, lambda a, b: a - b, True)

    def __mul__(s, o):
        return s._bin(o, lambda a, b: a * b)

    def __rmul__(s, o):
        return s._bin(o, lambda a, b: a * b, True)

    def _div(self, num, den):
        # Python raises ZeroDivisionError on x / 0.0 : fork on it like the real code would.
        dz = z3.simplify(den == 0)
        if z3.is_true(dz):
            raise ZeroDivisionError("float division by zero")
        if not z3.is_false(dz):
            if ENGINE is not None and ENGINE.decide(dz, zero_test=True):
                raise ZeroDivisionError("float division by zero")
        return SymReal(num / den)

    def __truediv__(s, o):
        ol = lift(o)
        if ol is None:
            return NotImplemented
        return s._div(s.t, ol)

    def __rtruediv__(s, o):
        ol = lift(o)
        if ol is None:
            return NotImplemented
        return s._div(ol, s.t)

    def __neg__(s):
        return SymReal(-s.t)

    def __pos__(s):
        return s

    def __abs__(s):
        return SymReal(z3.If(s.t >= 0, s.t, -s.t))

    def __pow__(s, n, mod=None):
        if isinstance(n, SymReal):
            raise TypeError("symbolic exponent")
        if isinstance(n, (int, float)) and float(n).is_integer() and 0 <= n <= 8:
            r = z3.RealVal(1)
            for _ in range(int(n)):
                r = r * s.t
            return SymReal(r)
        if isinstance(n, (int, float)) and float(n).is_integer() and -8 <= n < 0:
            return 1 / (s ** (-int(n)))
        if n == 0.5:
            return ENGINE.sqrt(s)
        raise TypeError("unsupported power %r on symbolic real" % (n,))

    def __rpow__(s, base):
        raise TypeError("symbolic exponent")

    # ---- comparisons ------------------------------------------------------------------------------
    def _cmp(self, other, f, zero_test=False):
        if isinstance(other, float) and not isinstance(other, SymReal) and (math.isinf(other) or math.isnan(other)):
            # a symbolic real is finite
            if math.isnan(other):
                return f(0.0, other)
            return f(0.0, other)
        o = lift(other)
        if o is None:
            return NotImplemented
        return SymBool(f(self.t, o), zero_test=zero_test)

    def __eq__(s, o):
        return s._cmp(o, lambda a, b: a == b, zero_test=_is_zero_literal(o))

    def __ne__(s, o):
        return s._cmp(o, lambda a, b: a != b, zero_test=_is_zero_literal(o))

    def __lt__(s, o):
        return s._cmp(o, lambda a, b: a < b)

    def __le__(s, o):
        return s._cmp(o, lambda a, b: a <= b)

    def __gt__(s, o):
        return s._cmp(o, lambda a, b: a > b)

    def __ge__(s, o):
        return s._cmp(o, lambda a, b: a >= b)

    __hash__ = object.__hash__

    def __repr__(s):
        return "Sym(%s)" % z3.simplify(s.t)

    __str__ = __repr__

    def __format__(s, spec):
        return repr(s)

    def __float__(s):
        raise TypeError("realising a symbolic real (float())")

    def __int__(s):
        raise TypeError("realising a symbolic real (int())")

    def __bool__(s):
        return bool(s != 0)

    def __round__(s, n=None):
        raise TypeError("realising a symbolic real (round())")

    def __reduce__(s):
        return (float, (float('nan'),))


class Engine:
    """DFS re-execution engine with hypothesis pools."""

    def __init__(self, feas_timeout_ms=3000, assert_timeout_ms=60000, max_paths=200000, fork_outputs=False,
                 output_branches='both', input_zero_tests='fork'):
        self.output_branches = output_branches
        self.input_zero_tests = input_zero_tests
        self.after_violation_budget = 50
        self.feas_timeout_ms = feas_timeout_ms
        self.assert_timeout_ms = assert_timeout_ms
        self.max_paths = max_paths
        self.fork_outputs = fork_outputs
        self.schedule = []  # list of [index, alternatives, kind]
        self.mode = 'reexec'
        self.pos = 0
        self.pc = []
        self.pools = {}
        self.nvars = 0
        self._out_cache = {}
        self.stats = dict(paths=0, aborted=0, feas_queries=0, assert_queries=0, unsat=0, sat=0, unknown=0,
                          solver_s=0.0, forks=0, choose=0)
        self.decisions = []  # trace of the current path (for samples / replay)
        self.sample_queries = []

    # ---- symbols ----------------------------------------------------------------------------------
    def real(self, name):
        return SymReal(z3.Real(name))

    def fresh(self, name, output=False):
        self.nvars += 1
        n = "%s%s!%d" % (OUT_PREFIX if output else "", name, self.nvars)
        return SymReal(z3.Real(n))

    def out(self, name):
        """Named solver-output symbol."""
        return SymReal(z3.Real(OUT_PREFIX + name))

    def sqrt(self, x):
        s = self.fresh("sqrt")
        self.assume(z3.And(s.t >= 0, s.t * s.t == lift(x)), 'linalg')
        return s

    # ---- hypotheses -------------------------------------------------------------------------------
    def assume(self, cond, pool='path'):
        c = cond_of(cond)
        if pool == 'path':
            self.pc.append(c)
        else:
            self.pools.setdefault(pool, []).append(c)

    # ---- decisions --------------------------------------------------------------------------------
    def _check(self, conds, timeout_ms, kind='assert'):
        s = z3.Solver()
        s.set('timeout', int(timeout_ms))
        s.add(*conds)
        t0 = time.time()
        r = s.check()
        dt = time.time() - t0
        self.stats['solver_s'] += dt
        if dt * 1000 > 0.25 * timeout_ms:
            # robustness indicator (evidence): verdicts that needed more than a quarter of their time budget
            k = 'slow_queries' if kind == 'assert' else 'slow_feas_queries'
            self.stats[k] = self.stats.get(k, 0) + 1
        return r, s

    def feasible(self, cond):
        self.stats['feas_queries'] += 1
        r, _ = self._check(self.pc + [cond], self.feas_timeout_ms, kind='feas')
        return r != z3.unsat  # unknown counts as feasible

    def decide(self, cond, zero_test=False):
        cond = z3.simplify(cond)
        if z3.is_true(cond):
            return True
        if z3.is_false(cond):
            return False
        if zero_test and not self.fork_outputs and is_output_term(cond):
            # cut (DESIGN 2.2): zero test on a coefficient containing a solver-output symbol: not forked.
            # `x != 0` -> True (key kept), `x == 0` -> False.
            self.stats['zero_test_kept'] = self.stats.get('zero_test_kept', 0) + 1
            return not _is_eq(cond)
        if self.pos < len(self.schedule):
            idx, alts, _ = self.schedule[self.pos]
        else:
            if is_output_term(cond):
                # no feasibility query on solver outputs (non-linear pools): both sides explored, unless the check
                # states the cut 'first' (only for branches its property's quantities do not depend on)
                if self.output_branches == 'first' and not _is_eq_or_neq(cond):
                    alts = [True]
                    self.stats['output_branches_cut'] = self.stats.get('output_branches_cut', 0) + 1
                else:
                    alts = [True, False]
            elif zero_test and self.input_zero_tests == 'generic':
                # stated bound: parameters are generic - a coefficient polynomial of the inputs that CAN be non-zero
                # is assumed non-zero (the zero set is excluded from the claim and counted in the evidence)
                nz = not _is_eq(cond)       # value of `cond` on the non-zero side
                if self.feasible(cond if nz else z3.Not(cond)):
                    alts = [nz]
                    self.stats['generic_assumed'] = self.stats.get('generic_assumed', 0) + 1
                else:
                    alts = [not nz]
            else:
                alts = []
                if self.feasible(cond):
                    alts.append(True)
                if self.feasible(z3.Not(cond)):
                    alts.append(False)
            if not alts:
                raise Abort()
            if len(alts) > 1:
                self.stats['forks'] += 1
            if self.mode == 'fork':
                alts = [self._fork_alternatives(alts)]
            self.schedule.append([0, alts, 'b'])
            idx = 0
        d = alts[idx]
        self.pos += 1
        if not (self.output_branches == 'first' and is_output_term(cond) and not _is_eq_or_neq(cond)):
            # (a branch taken under the 'first' cut is a don't-care: its literal must not restrict the hypotheses)
            self.pc.append(cond if d else z3.Not(cond))
        self.decisions.append(('b', cond, d))
        return d

    def choose(self, n, label=""):
        """Non-deterministic choice of an int in range(n) (structure enumeration through the same scheduler)."""
        if n <= 0:
            raise Abort()
        if self.pos < len(self.schedule):
            idx, alts, _ = self.schedule[self.pos]
        else:
            alts = list(range(n))
            if self.mode == 'fork':
                alts = [self._fork_alternatives(alts)]
            self.schedule.append([0, alts, 'c'])
            idx = 0
            self.stats['choose'] += 1
        d = alts[idx]
        self.pos += 1
        self.decisions.append(('c', label, d))
        return d

    def explore(self, fn, summarize, mode='fork'):
        """Run fn(engine) over all feasible paths; `summarize(engine, result, error)` -> picklable per-path record.
        mode 'fork': at every fork point the process is forked (child explores the first alternative's subtree,
        parent waits, then takes the next one) - nothing is re-executed.  mode 'reexec': classic DFS re-execution."""
        if mode == 'fork':
            return self._explore_fork(fn, summarize)
        return self._explore_reexec(fn, summarize)

    def _run_one(self, fn, summarize):
        global ENGINE
        self.pos = 0
        self.pc = []
        self.pools = {}
        self.decisions = []
        self._out_cache = {}
        self.provenance = {}
        ENGINE = self
        rec = None
        try:
            r = fn(self)
            self.stats['paths'] += 1
            rec = summarize(self, r, None)
        except Abort:
            self.stats['aborted'] += 1
            rec = summarize(self, None, 'abort')
        except Inconclusive as ex:
            self.stats['paths'] += 1
            rec = summarize(self, None, 'inconclusive: %s' % ex.what)
        except Exception:
            import traceback
            self.stats['paths'] += 1
            rec = summarize(self, None, 'error: ' + traceback.format_exc())
        finally:
            ENGINE = None
        return rec

    def _explore_reexec(self, fn, summarize):
        self.mode = 'reexec'
        records = []
        first_violation = None
        self.schedule = []
        while True:
            stats0 = dict(self.stats)
            rec = self._run_one(fn, summarize)
            rec['stats'] = {k: self.stats[k] - stats0.get(k, 0) for k in self.stats}
            records.append(rec)
            if len(records) > self.max_paths:
                records.append(dict(error='inconclusive: path bound %d exceeded' % self.max_paths, stats={}))
                break
            if rec.get('violations') and first_violation is None:
                first_violation = len(records)
            if first_violation is not None and len(records) - first_violation >= self.after_violation_budget:
                # a counterexample is in hand: the rest of this case's path tree (possibly blown up by the very defect)
                # is not explored - the case is reported as violated, never as held
                break
            while self.schedule and self.schedule[-1][0] == len(self.schedule[-1][1]) - 1:
                self.schedule.pop()
            if not self.schedule:
                break
            self.schedule[-1][0] += 1
        return records

    def _explore_fork(self, fn, summarize):
        import os
        import pickle
        import tempfile
        import shutil
        self.mode = 'fork'
        base = '/dev/shm' if os.path.isdir('/dev/shm') else None
        self._dir = tempfile.mkdtemp(prefix='vf_paths_', dir=base)
        self._root = os.getpid()
        self._stats0 = dict(self.stats)
        self.schedule = []
        try:
            rec = self._run_one(fn, summarize)
            rec['stats'] = {k: self.stats[k] - self._stats0.get(k, 0) for k in self.stats}
            with open(os.path.join(self._dir, "%d.pkl" % os.getpid()), "wb") as f:
                pickle.dump(rec, f)
            if rec.get('violations'):
                # a counterexample is in hand: no further alternatives of this case are forked (see _fork_alternatives)
                open(os.path.join(self._dir, "STOP"), "w").close()
        except BaseException:
            if os.getpid() != self._root:
                os._exit(3)
            raise
        if os.getpid() != self._root:
            os._exit(0)
        records = []
        for fnm in sorted(os.listdir(self._dir)):
            if fnm.endswith('.pkl'):
                with open(os.path.join(self._dir, fnm), "rb") as f:
                    records.append(pickle.load(f))
            elif fnm.endswith('.crash'):
                records.append(dict(error='error: a forked path process crashed (%s)' % fnm, stats={}))
        shutil.rmtree(self._dir, ignore_errors=True)
        if len(records) > self.max_paths:
            records.append(dict(error='inconclusive: path bound %d exceeded' % self.max_paths, stats={}))
        return records

    def _fork_alternatives(self, alts):
        """fork mode: children take alts[:-1] (sequentially), this process continues with alts[-1]"""
        import os
        if os.path.exists(os.path.join(self._dir, "STOP")):
            # another path of this case already produced a counterexample: the case is reported as violated, the rest of
            # its path tree (possibly blown up by the defect itself) is not explored
            raise Abort()
        for a in alts[:-1]:
            n_existing = len(os.listdir(self._dir))
            if n_existing > self.max_paths:
                raise Inconclusive("path bound %d exceeded" % self.max_paths)
            pid = os.fork()
            if pid == 0:
                import sys
                sys.setprofile(None)
                self._stats0 = dict(self.stats)
                return a
            _, st = os.waitpid(pid, 0)
            if st != 0:
                open(os.path.join(self._dir, "%d.crash" % pid), "w").close()
        return alts[-1]

    # ---- assertions -------------------------------------------------------------------------------
    def hyps(self, pools=()):
        h = list(self.pc)
        for p in pools:
            h.extend(self.pools.get(p, []))
        return h

    def valid(self, claim, pools=(), timeout_ms=None, extra=()):
        """Is `claim` implied by path condition + named pools?  -> ('unsat'|'sat'|'unknown', model)"""
        self.stats['assert_queries'] += 1
        c = cond_of(claim)
        r, s = self._check(self.hyps(pools) + list(extra) + [z3.Not(c)], timeout_ms or self.assert_timeout_ms)
        rs = str(r)
        self.stats[rs] += 1
        if CVC5_RATE > 0 and rs in ('unsat', 'sat'):
            self._crosscheck(s, rs)
        if len(self.sample_queries) < 3:
            self.sample_queries.append(dict(claim=str(z3.simplify(c))[:300], pools=list(pools), verdict=rs))
        return rs, (s.model() if r == z3.sat else None)

    def _crosscheck(self, solver, verdict):
        """second solver on a sample of the discharged queries (thorough tier): cvc5 on the SMT-LIB export of the very
        assertions z3 decided.  A definite opposite verdict is recorded as a disagreement (=> INCONCLUSIVE)."""
        import hashlib
        n = self.stats['assert_queries']
        h = int(hashlib.sha1(("%d:%d" % (CVC5_SEED, n)).encode()).hexdigest()[:8], 16) / 0xffffffff
        if h > CVC5_RATE:
            return
        try:
            import cvc5
            txt = solver.to_smt2()
            if 'String' in txt or 'str.' in txt:
                return
            tm = cvc5.TermManager()
            slv = cvc5.Solver(tm)
            slv.setOption("tlimit-per", "10000")
            slv.setLogic("ALL")
            prs = cvc5.InputParser(slv)
            prs.setStringInput(cvc5.InputLanguage.SMT_LIB_2_6, txt, "q")
            sm = prs.getSymbolManager()
            res = None
            while True:
                cmd = prs.nextCommand()
                if cmd.isNull():
                    break
                out = cmd.invoke(slv, sm).strip()
                if out:
                    res = out
            self.stats['cvc5_checked'] = self.stats.get('cvc5_checked', 0) + 1
            if res == verdict:
                self.stats['cvc5_agree'] = self.stats.get('cvc5_agree', 0) + 1
            elif res in ('sat', 'unsat'):
                self.stats['cvc5_disagree'] = self.stats.get('cvc5_disagree', 0) + 1
            else:
                self.stats['cvc5_unknown'] = self.stats.get('cvc5_unknown', 0) + 1
        except Exception:
            self.stats['cvc5_error'] = self.stats.get('cvc5_error', 0) + 1

    def satisfiable(self, pools=(), extra=(), timeout_ms=None):
        """Reachability twin: hypotheses of this path are jointly satisfiable."""
        self.stats['assert_queries'] += 1
        r, s = self._check(self.hyps(pools) + list(extra), timeout_ms or self.assert_timeout_ms)
        self.stats[str(r)] += 1
        return str(r), (s.model() if r == z3.sat else None)


def _is_eq_or_neq(cond):
    """(dis)equality between two terms - PEPit's own consistency asserts; never cut by the 'first' policy"""
    if z3.is_not(cond):
        return _is_eq_or_neq(cond.arg(0))
    return z3.is_eq(cond)


def _is_eq(cond):
    """cond is an equality (not a disequality) after simplify."""
    if z3.is_not(cond):
        return not _is_eq(cond.arg(0))
    return z3.is_eq(cond)


def model_value(m, t, default=0.0):
    """Value of term t in model m as a float."""
    v = m.eval(lift(t), model_completion=True)
    return z3_to_float(v, default)


def z3_to_float(v, default=0.0):
    if z3.is_rational_value(v):
        return v.numerator_as_long() / v.denominator_as_long()
    if z3.is_algebraic_value(v):
        a = v.approx(20)
        return a.numerator_as_long() / a.denominator_as_long()
    if z3.is_int_value(v):
        return float(v.as_long())
    return default
