"""Stand-in for cvxpy used only inside the symbolic checking process (DESIGN 2.4).

Records every constraint as an affine form over scalar unknowns (var, index) whose coefficients may be symbolic
(SymReal).  `Problem.solve` calls SOLVER_HOOK[0] (the contract stub).  Pure Python, no C boundary."""
import numpy as np

STANDIN = True
_state = {'vars': [], 'problems': []}
SOLVER_HOOK = [None]


def reset():
    _state['vars'] = []
    _state['problems'] = []


def variables():
    return list(_state['vars'])


def problems():
    return list(_state['problems'])


def _is_zero_literal(w):
    return type(w) in (int, float) and w == 0


def _is_scalar(x):
    return isinstance(x, (int, float, np.integer, np.floating)) and not isinstance(x, bool)


class Aff:
    """affine form: {(var, idx): coef} + const"""
    __array_priority__ = 1000

    def __init__(self, terms=None, const=0):
        self.terms = dict(terms or {})
        self.const = const

    @staticmethod
    def lift(x):
        if isinstance(x, Aff):
            return x
        if _is_scalar(x):
            return Aff({}, x.item() if isinstance(x, np.generic) else x)
        if isinstance(x, np.ndarray) and x.shape == ():
            return Aff({}, x.item())
        raise TypeError("cvxpy stand-in: cannot use %r in an affine expression" % type(x))

    def __add__(s, o):
        o = Aff.lift(o)
        t = dict(s.terms)
        for k, v in o.terms.items():
            t[k] = t[k] + v if k in t else v
        return Aff(t, s.const + o.const)

    __radd__ = __add__

    def __neg__(s):
        return Aff({k: -v for k, v in s.terms.items()}, -s.const)

    def __sub__(s, o):
        return s + (-Aff.lift(o))

    def __rsub__(s, o):
        return Aff.lift(o) + (-s)

    def __mul__(s, c):
        if not _is_scalar(c):
            raise TypeError("cvxpy stand-in: non-affine product")
        return Aff({k: v * c for k, v in s.terms.items()}, s.const * c)

    __rmul__ = __mul__

    def __truediv__(s, c):
        if not _is_scalar(c):
            raise TypeError("cvxpy stand-in: division by a non-scalar")
        return Aff({k: v / c for k, v in s.terms.items()}, s.const / c)

    def __le__(s, o):
        return Constraint(s - o, 'le')

    def __ge__(s, o):
        return Constraint(Aff.lift(o) - s, 'le')

    def __eq__(s, o):
        return Constraint(s - o, 'eq')

    __hash__ = object.__hash__

    @property
    def value(s):
        tot = s.const
        for (var, idx), c in s.terms.items():
            if var._value is None:
                return None
            tot = tot + c * var._value[idx]
        return tot


class Variable:
    __array_priority__ = 1000

    def __init__(self, shape=(), symmetric=False, **kw):
        if isinstance(shape, int):
            shape = (shape,)
        self.shape = tuple(shape)
        self.symmetric = symmetric
        if symmetric:
            assert len(self.shape) == 2 and self.shape[0] == self.shape[1]
        self._value = None
        self.id = len(_state['vars'])
        _state['vars'].append(self)

    def key(self, idx):
        idx = tuple(int(i) for i in idx)
        for i, n in zip(idx, self.shape):
            if not (0 <= i < n):
                raise IndexError("cvxpy stand-in: index out of range")
        if self.symmetric and idx[0] > idx[1]:
            idx = (idx[1], idx[0])
        return (self, idx)

    def keys(self):
        ks = []
        for idx in np.ndindex(*self.shape):
            k = self.key(idx)
            if k not in ks:
                ks.append(k)
        return ks

    def entry(self, *idx):
        return Aff({self.key(idx): 1})

    def __getitem__(self, idx):
        if not isinstance(idx, tuple):
            idx = (idx,)
        return self.entry(*idx)

    def __matmul__(self, w):
        if hasattr(w, 'toarray'):
            w = w.toarray().ravel()
        w = np.asarray(w)
        if not (len(self.shape) == 1 and w.shape == self.shape):
            raise ValueError("cvxpy stand-in: incompatible dimensions %s @ %s" % (self.shape, w.shape))
        out = Aff()
        for i in range(self.shape[0]):
            if _is_zero_literal(w[i]):
                continue
            out = out + self.entry(i) * w[i]
        return out

    def __rshift__(self, o):
        if not (_is_scalar(o) and o == 0):
            raise TypeError("cvxpy stand-in: only `X >> 0` is supported")
        if not (len(self.shape) == 2 and self.shape[0] == self.shape[1]):
            raise ValueError("cvxpy stand-in: PSD constraint on a non-square variable")
        return Constraint(self, 'psd')

    @property
    def value(self):
        return self._value

    __hash__ = object.__hash__


class _Elementwise:
    def __init__(self, var, W):
        self.var = var
        self.W = W


class Parameter:
    """problem data that may be (re)assigned between solves: read at solve time"""
    __array_priority__ = 1000

    def __init__(self, shape=(), symmetric=False, **kw):
        self.shape = tuple(shape) if not isinstance(shape, int) else (shape,)
        self.symmetric = symmetric
        self.value = None


class _ParamAff(Aff):
    """sum(multiply(Variable, Parameter)): the coefficients are the parameter's value when the form is read"""

    def __init__(self, var, param):
        self._var, self._param = var, param
        self.const = 0

    @property
    def terms(self):
        if self._param.value is None:
            raise ValueError("cvxpy stand-in: a Parameter of the problem has no value")
        W = np.asarray(self._param.value)
        out = {}
        for idx in np.ndindex(*self._var.shape):
            w = W[idx]
            if _is_zero_literal(w):
                continue
            for k, v in (self._var.entry(*idx) * w).terms.items():
                out[k] = out[k] + v if k in out else v
        return out


def multiply(var, W):
    if isinstance(W, Parameter):
        if not isinstance(var, Variable) or W.shape != var.shape:
            raise ValueError("cvxpy stand-in: multiply(Variable, Parameter of the same shape) only")
        return _Elementwise(var, W)
    if hasattr(W, 'toarray'):          # scipy sparse matrices are accepted by cvxpy
        W = W.toarray()
    W = np.asarray(W)
    if not isinstance(var, Variable) or W.shape != var.shape:
        raise ValueError("cvxpy stand-in: multiply(Variable, array of the same shape) only")
    return _Elementwise(var, W)


def sum(e):
    if not isinstance(e, _Elementwise):
        raise TypeError("cvxpy stand-in: sum(multiply(...)) only")
    if isinstance(e.W, Parameter):
        return _ParamAff(e.var, e.W)
    out = Aff()
    for idx in np.ndindex(*e.var.shape):
        w = e.W[idx]
        if _is_zero_literal(w):
            continue
        out = out + e.var.entry(*idx) * w
    return out


class Constraint:
    def __init__(self, expr, kind):
        self.expr = expr          # Aff (le: expr <= 0, eq: expr == 0) or Variable (psd)
        self.kind = kind
        self.dual_value = None


class Maximize:
    def __init__(self, e):
        self.expr = Aff.lift(e)
        self.sense = 'max'


class Minimize:
    def __init__(self, e):
        self.expr = Aff.lift(e)
        self.sense = 'min'


class _Stats:
    solver_name = 'CONTRACT-STUB'


class Problem:
    def __init__(self, objective=None, constraints=None):
        self.objective = objective
        self.constraints = list(constraints or [])
        self.status = None
        self.value = None
        self.solver_stats = _Stats()
        self.solve_kwargs = None
        _state['problems'].append(self)

    def solve(self, **kw):
        self.solve_kwargs = kw
        return SOLVER_HOOK[0](self, **kw)
