"""Stand-in for the MOSEK Optimizer API (Python) - recording Task with the semantics of the MOSEK manual.

Only the calls PEPit's MosekWrapper issues are implemented.  `Task.optimize()` calls OPTIMIZE_HOOK[0](task):
 * in the symbolic process this is the KKT contract stub (vf/mosekstub.py);
 * in replays it is the numeric emulator (vf/mosek_emulator.py: solves the recorded task with real cvxpy and
   returns numbers in MOSEK's layout and sign conventions).
MOSEK itself is not installed in this sandbox: the reading of the manual below is an assumption (DESIGN 2.4).

Semantics implemented (MOSEK 10 manual, "Semidefinite optimization", "Task API"):
  maximize/minimize  sum_j c_j x_j + sum_j <Cbar_j, Xbar_j>
  s.t.  lc_i <= sum_j a_ij x_j + sum_j <Abar_ij, Xbar_j> <= uc_i,   lx <= x <= ux,   Xbar_j PSD
  appendvars: new variables are fixed at 0;  appendcons: new constraints are free;
  appendsparsesymmat(dim, subi, subj, val): lower-triangular triplets (subi >= subj) of a symmetric matrix;
  <A, X> is the full Frobenius inner product of the symmetric matrices.
"""
import numpy as np

STANDIN = True
OPTIMIZE_HOOK = [None]
LICENSE_OK = [True]


class Error(Exception):
    pass


class _Enum:
    def __init__(self, *names):
        for n in names:
            setattr(self, n, n)


boundkey = _Enum('fr', 'up', 'fx', 'lo', 'ra')
soltype = _Enum('itr', 'bas', 'itg')
objsense = _Enum('maximize', 'minimize')
streamtype = _Enum('log', 'msg', 'err', 'wrn')
feature = _Enum('pton', 'pts')
prosta = _Enum('prim_and_dual_feas', 'prim_infeas', 'dual_infeas', 'unknown', 'prim_feas', 'dual_feas',
               'prim_infeas_or_unbounded', 'ill_posed')
solsta = _Enum('optimal', 'prim_infeas_cer', 'dual_infeas_cer', 'unknown')


def _py(v):
    """numpy scalar -> Python scalar (np.float64 arithmetic would try float() on a symbolic operand)"""
    return v.item() if isinstance(v, np.generic) else v


def _pys(vs):
    return [_py(v) for v in (vs.tolist() if isinstance(vs, np.ndarray) and vs.dtype != object else list(vs))]


def _int_index(i, what):
    if isinstance(i, (bool, np.bool_)) or not isinstance(i, (int, np.integer)):
        raise TypeError("mosek stand-in: %s must be an integer, got %r" % (what, type(i)))
    return int(i)


def _int_array(a, what):
    a = list(a) if not isinstance(a, np.ndarray) else a
    out = []
    for v in (a.tolist() if isinstance(a, np.ndarray) and a.dtype != object else list(a)):
        if isinstance(v, float) and not float(v).is_integer():
            raise TypeError("mosek stand-in: %s must contain integers" % what)
        if isinstance(v, (float, np.floating)):
            raise TypeError("mosek stand-in: %s must contain integers, got floats" % what)
        out.append(_int_index(v, what))
    return out


class Env:
    def __init__(self):
        pass

    def Task(self, *a):
        return Task(self)

    def checkoutlicense(self, feat):
        if not LICENSE_OK[0]:
            raise Error("license")

    def expirylicenses(self):
        return 365 if LICENSE_OK[0] else -1

    def __enter__(self):
        return self

    def __exit__(self, *a):
        return False


class Task:
    def __init__(self, env=None):
        self.env = env
        self.barvar_dims = []
        self.numvar = 0
        self.varbound = []          # (bk, bl, bu)
        self.numcon = 0
        self.conbound = []          # (bk, bl, bu)
        self.symmats = []           # (dim, [(i, j, v)]) lower-triangular triplets
        self.barA = {}              # (con, barvar) -> [(symmat idx, weight)]
        self.A = {}                 # (con, var) -> value
        self.c = {}                 # var -> value
        self.barC = {}              # barvar -> [(symmat idx, weight)]
        self.sense = None
        self.calls = []             # log of API calls (name, args) for structural comparison
        self.solution = None
        self.n_optimize = 0
        self.stream = None

    # ---- structure --------------------------------------------------------------------------------------------
    def appendbarvars(self, dims):
        for d in dims:
            self.barvar_dims.append(_int_index(d, "barvar dimension"))
        self.calls.append(('appendbarvars', list(dims)))

    def appendvars(self, n):
        n = _int_index(n, "number of variables")
        for _ in range(n):
            self.varbound.append((boundkey.fx, 0.0, 0.0))
        self.numvar += n
        self.calls.append(('appendvars', n))

    def putvarbound(self, j, bk, bl, bu):
        j = _int_index(j, "variable index")
        if not 0 <= j < self.numvar:
            raise Error("variable index out of range")
        self.varbound[j] = (bk, _py(bl), _py(bu))

    def getnumcon(self):
        return self.numcon

    def getnumvar(self):
        return self.numvar

    def getmaxnumvar(self):
        return self.numvar

    def appendcons(self, n):
        n = _int_index(n, "number of constraints")
        for _ in range(n):
            self.conbound.append((boundkey.fr, -np.inf, np.inf))
        self.numcon += n
        self.calls.append(('appendcons', n))

    def appendsparsesymmat(self, dim, subi, subj, valij):
        dim = _int_index(dim, "dimension")
        subi = _int_array(subi, "subi")
        subj = _int_array(subj, "subj")
        vals = _pys(valij)
        if not (len(subi) == len(subj) == len(vals)):
            raise Error("appendsparsesymmat: arrays of different lengths")
        trip = []
        seen = set()
        for i, j, v in zip(subi, subj, vals):
            if not (0 <= j <= i < dim):
                raise Error("appendsparsesymmat: only the lower triangular part may be specified (got (%d,%d), dim %d)"
                            % (i, j, dim))
            if (i, j) in seen:
                raise Error("appendsparsesymmat: duplicate entry (%d,%d)" % (i, j))
            seen.add((i, j))
            trip.append((i, j, v))
        self.symmats.append((dim, trip))
        return len(self.symmats) - 1

    def _check_bar(self, j, sub):
        j = _int_index(j, "barvar index")
        if not 0 <= j < len(self.barvar_dims):
            raise Error("barvar index %d out of range (%d matrix variables)" % (j, len(self.barvar_dims)))
        for s in sub:
            s = _int_index(s, "symmat index")
            if self.symmats[s][0] != self.barvar_dims[j]:
                raise Error("dimension of symmetric matrix %d (%d) does not match matrix variable %d (%d)"
                            % (s, self.symmats[s][0], j, self.barvar_dims[j]))
        return j

    def putbaraij(self, i, j, sub, weights):
        i = _int_index(i, "constraint index")
        if not 0 <= i < self.numcon:
            raise Error("constraint index out of range")
        j = self._check_bar(j, sub)
        self.barA[(i, j)] = [(int(s), _py(w)) for s, w in zip(sub, weights)]

    def putaijlist(self, subi, subj, valij):
        subi = _int_array(subi, "subi")
        subj = _int_array(subj, "subj")
        vals = _pys(valij)
        if not (len(subi) == len(subj) == len(vals)):
            raise Error("putaijlist: arrays of different lengths")
        for i, j, v in zip(subi, subj, vals):
            if not (0 <= i < self.numcon and 0 <= j < self.numvar):
                raise Error("putaijlist: index out of range")
            self.A[(i, j)] = v

    def putconbound(self, i, bk, bl, bu):
        i = _int_index(i, "constraint index")
        if not 0 <= i < self.numcon:
            raise Error("constraint index out of range")
        self.conbound[i] = (bk, _py(bl), _py(bu))

    def putclist(self, subj, val):
        subj = _int_array(subj, "subj")
        for j, v in zip(subj, _pys(val)):
            if not 0 <= j < self.numvar:
                raise Error("putclist: index out of range")
            self.c[j] = v

    def putcj(self, j, v):
        self.putclist([j], [v])

    def putbarcj(self, j, sub, weights):
        j = self._check_bar(j, sub)
        self.barC[j] = [(int(s), _py(w)) for s, w in zip(sub, weights)]

    def putobjsense(self, sense):
        self.sense = sense

    def set_Stream(self, st, fn):
        self.stream = fn

    def solutionsummary(self, st):
        pass

    # ---- mathematical view of the recorded task ---------------------------------------------------------------
    def symmat_dense(self, idx):
        dim, trip = self.symmats[idx]
        M = np.empty((dim, dim), dtype=object)
        M.fill(0)
        for i, j, v in trip:
            M[i, j] = M[i, j] + v
            if i != j:
                M[j, i] = M[j, i] + v
        return M

    def bar_dense(self, lst, dim):
        M = np.empty((dim, dim), dtype=object)
        M.fill(0)
        for s, w in lst:
            M = M + w * self.symmat_dense(s)
        return M

    def row(self, i):
        """constraint i as (dict barvar -> dense symmetric weight matrix, dict var -> coef, bound)"""
        bars = {j: self.bar_dense(lst, self.barvar_dims[j]) for (ii, j), lst in self.barA.items() if ii == i}
        lin = {j: v for (ii, j), v in self.A.items() if ii == i}
        return bars, lin, self.conbound[i]

    # ---- solving ----------------------------------------------------------------------------------------------
    def optimize(self, **kw):
        self.n_optimize += 1
        if OPTIMIZE_HOOK[0] is None:
            raise Error("mosek stand-in: no optimizer installed")
        self.solution = OPTIMIZE_HOOK[0](self, **kw)
        return 'ok'

    def _sol(self):
        if self.solution is None:
            raise Error("no solution available")
        return self.solution

    def getxx(self, st):
        return self._sol()['xx']

    def getbarxj(self, st, j):
        return self._sol()['barx'][_int_index(j, "barvar index")]

    def gety(self, st):
        return self._sol()['y']

    def getbarsj(self, st, j):
        return self._sol()['bars'][_int_index(j, "barvar index")]

    def getprosta(self, st):
        return self._sol()['prosta']

    def getsolsta(self, st):
        return self._sol().get('solsta', solsta.optimal)

    def getprimalobj(self, st):
        return self._sol().get('primalobj')

    def __enter__(self):
        return self

    def __exit__(self, *a):
        return False
