#!/bin/bash
# tools/seed_confirm.sh <worktree> [notests] : confirm a seeded change independently
#   demo fails with the patch, passes without it (git apply -R / git apply: `git stash` is shared between worktrees),
#   full test-suite with the patch shows only the baseline failures
wt=$1
cd "$wt" || exit 9
[ -f SEED/patch.diff ] || { echo "no SEED/patch.diff"; exit 9; }
git checkout -q -- PEPit; git apply SEED/patch.diff || { echo "patch does not apply"; exit 9; }
echo "--- demo WITH patch (expect non-zero)"
PYTHONPATH="$wt" timeout 1800 /venv/bin/python -W ignore SEED/demo.py > /tmp/seed_demo_with_$(basename $wt).out 2>&1; a=$?
tail -3 /tmp/seed_demo_with_$(basename $wt).out
git apply -R SEED/patch.diff
echo "--- demo WITHOUT patch (expect 0)"
PYTHONPATH="$wt" timeout 1800 /venv/bin/python -W ignore SEED/demo.py > /tmp/seed_demo_without_$(basename $wt).out 2>&1; b=$?
tail -2 /tmp/seed_demo_without_$(basename $wt).out
git apply SEED/patch.diff
echo "demo_with=$a demo_without=$b"
if [ "$2" != "notests" ]; then
  echo "--- test-suite WITH patch"
  timeout 3000 /venv/bin/python -m pytest -q -q -p no:cacheprovider --timeout=900 tests > /tmp/seed_tests_$(basename $wt).out 2>&1
  grep -c "^FAILED" /tmp/seed_tests_$(basename $wt).out
  grep "^FAILED" /tmp/seed_tests_$(basename $wt).out | cut -c1-120
fi
