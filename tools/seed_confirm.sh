#!/bin/bash
# tools/seed_confirm.sh <worktree> : confirm a seeded change independently (demo fails with it, passes without it, test-suite unchanged)
wt=$1
cd "$wt" || exit 9
[ -f SEED/patch.diff ] || { echo "no SEED/patch.diff"; exit 9; }
git diff --quiet -- PEPit && { echo "patch not applied in worktree: applying"; git apply SEED/patch.diff || exit 9; }
echo "--- demo WITH patch (expect non-zero)"
PYTHONPATH="$wt" timeout 1200 /venv/bin/python -W ignore SEED/demo.py > /tmp/seed_demo_with.out 2>&1; a=$?
tail -3 /tmp/seed_demo_with.out
git stash -q -- PEPit
echo "--- demo WITHOUT patch (expect 0)"
PYTHONPATH="$wt" timeout 1200 /venv/bin/python -W ignore SEED/demo.py > /tmp/seed_demo_without.out 2>&1; b=$?
tail -2 /tmp/seed_demo_without.out
git stash pop -q
echo "demo_with=$a demo_without=$b"
if [ "$2" != "notests" ]; then
  echo "--- test-suite WITH patch"
  timeout 3000 /venv/bin/python -m pytest -q -q -p no:cacheprovider --timeout=900 tests > /tmp/seed_tests_$(basename $wt).out 2>&1
  grep -c "^FAILED" /tmp/seed_tests_$(basename $wt).out
  grep "^FAILED" /tmp/seed_tests_$(basename $wt).out | cut -c1-120
fi
