#!/usr/bin/env python3
"""regenerate seeded/README.md from the meta.json files"""
import json, os, glob
V = os.path.join(os.path.dirname(os.path.dirname(os.path.abspath(__file__))), 'seeded')
rows = []
for d in sorted(glob.glob(os.path.join(V, '*-*'))):
    name = os.path.basename(d)
    try:
        m = json.load(open(os.path.join(d, 'meta.json')))
    except Exception:
        continue
    rows.append((name, m.get('property', name[:3]), (m.get('summary') or '').replace('\n', ' ').replace('|', '/')[:170],
                 (m.get('needs') or '').replace('\n', ' ').replace('|', '/')[:150],
                 "; ".join(m.get('caught_by', []))[:150].replace('|', '/'), 'yes' if m.get('needed_strengthening') else 'no'))
with open(os.path.join(V, 'README.md'), 'w') as f:
    f.write("# Seeded changes\n\nEach directory holds a change to PEPit that breaks one property while the 269-test suite still passes\n"
            "(`patch.diff`, a demonstration `demo.py` that fails with the change and passes without it, `meta.json`).  They were\n"
            "written by independent sub-agents that saw only the property text and a scratch worktree (round 2: plus the list of\n"
            "ideas already used).  None is applied to /repo; `tools/seed_eval.sh <seed> <check>` applies one in a scratch worktree,\n"
            "runs the check against it (`VERIF_REPO`) and reverts.  Each was confirmed independently (`tools/seed_confirm.sh`):\n"
            "demo fails with the patch, passes without, test-suite unchanged.\n\n"
            "| seed | property | change | needs, to manifest | caught by | check strengthened first |\n|---|---|---|---|---|---|\n")
    for r in rows:
        f.write("| %s | %s | %s | %s | %s | %s |\n" % r)
    n_str = sum(1 for r in rows if r[5] == 'yes')
    f.write("\n%d seeds; %d were caught by the checks as they stood, %d needed a strengthening first (recorded under\n"
            "`needed_strengthening` in each meta.json).  What was missing was mostly *coverage of a generator* (a member family,\n"
            "an operator, a model shape, a parameter regime, a second call), sometimes a new claim, and several times a repair of\n"
            "the machinery itself (stand-in gaps, harness crashes, non-terminating exploration, replay isolation): DESIGN.md 9.5.\n" % (len(rows), len(rows) - n_str, n_str))
print(len(rows), "seeds")
