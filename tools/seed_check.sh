#!/bin/bash
# tools/seed_check.sh <seed-id> <check> [<check> ...] : apply seeded/<id>/patch.diff to /repo, run the quick checks, revert
id=$1; shift
git -C /repo diff --quiet || { echo "repo dirty"; exit 9; }
git -C /repo apply /verif/seeded/$id/patch.diff || { echo "patch does not apply"; exit 9; }
for c in "$@"; do
  cd /verif && ./check $c > /tmp/seedcheck_${id}_$c.out 2>&1; e=$?
  echo "$id $c exit=$e :: $(grep -A1 '^VIOLATION' /tmp/seedcheck_${id}_$c.out | grep signature | head -3 | cut -c1-200 | tr '\n' ' ')"
done
git -C /repo checkout -- .
