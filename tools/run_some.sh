#!/bin/bash
# tools/run_some.sh <tier> <check>... : run the listed checks of a tier sequentially, one line per check
tier=$1; shift
for p in "$@"; do
  s=$(date +%s)
  ./check $p --tier $tier > /tmp/all_${tier}_$p.out 2>&1; e=$?
  echo "$p exit=$e wall=$(( $(date +%s) - s ))s $(tail -1 /tmp/all_${tier}_$p.out | cut -c1-200)"
done
