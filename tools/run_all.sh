#!/bin/bash
# run every registered check of a tier sequentially, print one line per check
tier=${1:-quick}
for p in C01 C02 C03 C04 C05 C06 C07 C08 C09 C11 C12 C13 C14 C15 C16 C17; do
  s=$(date +%s)
  ./check $p --tier $tier > /tmp/all_$p.out 2>&1; e=$?
  echo "$p exit=$e wall=$(( $(date +%s) - s ))s $(tail -1 /tmp/all_$p.out | cut -c1-160)"
done
