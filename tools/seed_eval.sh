#!/bin/bash
# tools/seed_eval.sh <seed-dir-name> <check> [...] : apply seeded/<name>/patch.diff in the evaluation worktree (never /repo),
# run the quick checks against it (VERIF_REPO), revert.
name=$1; shift
wt=/tmp/wt_eval
# scratch worktree of /repo's HEAD, created on demand (remove it when done: git -C /repo worktree remove --force /tmp/wt_eval)
[ -d "$wt" ] || git -C /repo worktree add -q --detach "$wt" || exit 9
git -C $wt checkout -q -- . ; git -C $wt clean -fdq
git -C $wt apply /verif/seeded/$name/patch.diff || { echo "$name: patch does not apply to current HEAD"; exit 9; }
for c in "$@"; do
  cd /verif && VERIF_REPO=$wt ./check $c > /tmp/seedeval_${name}_$c.out 2>&1; e=$?
  echo "$name $c exit=$e :: $(grep -A1 '^VIOLATION' /tmp/seedeval_${name}_$c.out | grep signature | head -2 | cut -c1-220 | tr '\n' ' ')"
done
git -C $wt checkout -q -- . ; git -C $wt clean -fdq
