#!/bin/bash
# tools/mut.sh <file-in-repo> <python-regex-old> <new> <check args...> : apply a one-line mutation to /repo, run ./check, revert.
f=$1; old=$2; new=$3; shift 3
cd /repo && git diff --quiet || { echo "repo dirty"; exit 9; }
python3 - "$f" "$old" "$new" <<'PY'
import sys
f,old,new=sys.argv[1:4]
s=open('/repo/'+f).read()
assert s.count(old)>=1, "pattern not found"
s=s.replace(old,new,1)
open('/repo/'+f,'w').write(s)
PY
[ $? -eq 0 ] || exit 9
cd /verif && ./check "$@" 2>&1 | grep -v "^\[progress\]" | cut -c1-260 | tail -6
echo "exit=${PIPESTATUS[0]}"
cd /repo && git checkout -- . 
