#!/bin/bash
# Offline setup: overlay venv on top of /venv (which has PEPit's deps), plus z3 / sympy / cvc5 / crosshair.
set -e
cd "$(dirname "$0")"
V="${VERIF_VENV:-/verif/.venv}"
if [ ! -x "$V/bin/python" ] || ! "$V/bin/python" -c "import z3, sympy, numpy, cvxpy" 2>/dev/null; then
  rm -rf "$V"
  /venv/bin/python -m venv "$V"
  SP=$("$V/bin/python" -c "import site;print(site.getsitepackages()[0])")
  printf "import site; site.addsitedir('/venv/lib/python3.12/site-packages')\n" > "$SP/zz_overlay.pth"
  PIP_NO_INDEX=1 "$V/bin/pip" install -q --no-index --find-links /opt/veriftools/wheels z3-solver sympy cvc5 crosshair-tool jsonschema >/dev/null
fi
"$V/bin/python" -c "import z3, sympy, numpy, cvxpy; print('verif venv ok: z3', z3.get_version_string(), 'sympy', sympy.__version__, 'numpy', numpy.__version__)"
